"""Source edits used to test the checkers in both directions.  Each still compiles and keeps the repo's 3979
tests green (they were tried); `expect` maps a property to a token its report must contain (None = must stay silent)."""
P = 'src/binson_parser.c'
W = 'src/binson_writer.c'
CPP = 'src/binson.cpp'

MUTANTS = [
    {'name': 'check_boundary_off_by_one', 'edits': [(P, '    if (c > max) {\n        /* Boundary violated */', '    if (c > max + 1) {\n        /* Boundary violated */')],
     'expect': {'C01': 'MEM-R'}},
    {'name': 'min_size_one', 'edits': [(P, 'if (parser->buffer_size < BINSON_OBJECT_MINIMUM_SIZE) {', 'if (parser->buffer_size < 1) {')],
     'expect': {'C01': 'INV-A1'}},
    {'name': 'depth_le_max', 'edits': [(P, '(parser->depth < parser->max_depth)) {', '(parser->depth <= parser->max_depth)) {')],
     'expect': {'C01': 'STATE', 'C02': 'depth is incremented'}},
    {'name': 'leave_gate_removed', 'edits': [(P, '''    if (BINSON_ERROR_NONE != parser->error_flags) {
        /* depth is only meaningful while no error is latched. */
        return false;
    }

    binson_state *state = &parser->state[(parser->depth > 0) ? parser->depth - 1 : 0];
    if (!CHECKBITMASK(state->flags, BINSON_STATE_IN_OBJECT)) {''', '''    binson_state *state = &parser->state[(parser->depth > 0) ? parser->depth - 1 : 0];
    if (!CHECKBITMASK(state->flags, BINSON_STATE_IN_OBJECT)) {''')],
     'expect': {'C01': 'binson_parser_leave_object'}},
    {'name': 'write_off_by_one', 'edits': [(W, '    if (c > writer->buffer_size) {', '    if (c > writer->buffer_size + 1) {')],
     'expect': {'C04': 'MEM-W'}},
    {'name': 'counter_only_when_ok', 'edits': [(W, '    writer->buffer_used += data->bsize;\n', '    if (writer->error_flags == BINSON_ERROR_NONE) {\n        writer->buffer_used += data->bsize;\n    }\n')],
     'expect': {'C04': 'counter update', 'C09': 'counter'}},
    {'name': 'memmove_before_error_test', 'edits': [(W, '''    if (writer->error_flags == BINSON_ERROR_NONE) {
        memmove(&writer->buffer[writer->buffer_used], data->bptr, data->bsize);
    }''', '''    if (c <= writer->buffer_size && c >= writer->buffer_used && NULL != writer->buffer) {
        memmove(&writer->buffer[writer->buffer_used], data->bptr, data->bsize);
    }''')],
     'expect': {'C09': 'stores into the output buffer', 'C04': None}},
    {'name': 'leave_returns_true_on_error', 'edits': [(P, '''    bool ret = _advance(parser, BINSON_ADVANCE_LEAVE_ARRAY);
    if (!ret) {
        return (parser->error_flags == BINSON_ERROR_NONE);
    }''', '''    bool ret = _advance(parser, BINSON_ADVANCE_LEAVE_ARRAY);
    if (!ret) {
        return true;
    }''')],
     'expect': {'C09': None}},   # gate at function entry still makes it return false with an error latched: behaviour on the latch clause unchanged
    {'name': 'getter_gate_removed', 'edits': [(P, '''    if ((NULL != parser) &&
        (BINSON_ERROR_NONE == parser->error_flags) &&
        (NULL != parser->current_state) &&
        (BINSON_TYPE_INTEGER == parser->current_state->current_type)) {''', '''    if ((NULL != parser) &&
        (NULL != parser->current_state) &&
        (BINSON_TYPE_INTEGER == parser->current_state->current_type)) {''')],
     'expect': {'C09': 'binson_parser_get_integer', 'C01': 'binson_parser_get_integer'}},
    {'name': 'deserialize_unchecked_leave', 'edits': [(CPP, '    ifRuntimeError(binson_parser_leave_object(p), "Parse error");\n}', '    binson_parser_leave_object(p);\n}')],
     'expect': {'C15': 'R1'}},
    {'name': 'malloc_scratch', 'edits': [(P, '    struct _to_string_ctx ctx;\n', '    struct _to_string_ctx ctx;\n    void *scratch = malloc(16); free(scratch);\n'), (P, '#include <string.h>\n', '#include <string.h>\n#include <stdlib.h>\n')],
     'expect': {'C17': 'malloc'}},
    {'name': 'plain_char_compare', 'edits': [(P, '    bbuf scan_name;\n', '    if (length > 0 && field_name[0] < 0) {\n        return false;\n    }\n    bbuf scan_name;\n')],
     'expect': {'C18': 'char'}},
    {'name': 'reset_depth_dropped', 'edits': [(P, "            parser->error_flags = BINSON_ERROR_FORMAT;\n            return false;\n        }\n        parser->depth = 0;\n", "            parser->error_flags = BINSON_ERROR_FORMAT;\n            return false;\n        }\n")],
     'expect': {'C12': 'depth'}},
    {'name': 'reset_memset_one_entry', 'edits': [(P, 'memset(parser->state, 0x00U, (sizeof(binson_state)*parser->max_depth));', 'memset(parser->state, 0x00U, sizeof(binson_state));')],
     'expect': {'C12': 'state array'}},
    {'name': 'reset_current_state_dropped', 'edits': [(P, "    parser->current_state = &parser->state[0];\n\n    return true;", "    return true;")],
     'expect': {'C12': 'current_state'}},
    {'name': 'writer_reset_keeps_counter', 'edits': [(W, "    writer->buffer_used = 0;\n    writer->error_flags = BINSON_ERROR_NONE;\n\n    return true;", "    writer->error_flags = BINSON_ERROR_NONE;\n\n    return true;")],
     'expect': {'C12': 'counter'}},
    {'name': 'write_token_early_return', 'edits': [(W, "    bool ret = _write(writer, &value_descriptor);\n\n    if (value_data.bsize > 0) {", "    bool ret = _write(writer, &value_descriptor);\n    if (!ret) {\n        return false;\n    }\n\n    if (value_data.bsize > 0) {")],
     'expect': {'C04': 'counter update', 'C09': 'counter'}},
    {'name': 'begin_not_consumed_keeps_looping', 'edits': [(P, "                else if (state->flags == BINSON_STATE_IN_OBJ_EXPECTING_FIELD) {\n                    state->flags = BINSON_STATE_IN_OBJ_EXPECTING_VALUE;\n                }\n                break;", "                else if (state->flags == BINSON_STATE_IN_OBJ_EXPECTING_FIELD) {\n                    state->flags = BINSON_STATE_IN_OBJ_EXPECTING_VALUE;\n                }\n                else {\n                    proceed = true;\n                    continue;\n                }\n                break;")],
     'expect': {'C16': '_advance_parsing'}},
    {'name': 'rewind_too_short', 'edits': [(P, "parser->buffer_used -= bytes_consumed;", "parser->buffer_used -= bytes_consumed - 1;")],
     'expect': {'C01': None, 'C07': 'cursor'}},
    {'name': 'rewind_flags_not_restored', 'edits': [(P, "                            parser->buffer_used -= bytes_consumed;\n                            state->flags = BINSON_STATE_IN_OBJ_EXPECTING_FIELD;\n", "                            parser->buffer_used -= bytes_consumed;\n")],
     'expect': {'C07': 'expecting a field'}},
    {'name': 'bool_getter_no_type_gate', 'edits': [(P, "        (NULL != parser->current_state) &&\n        (BINSON_TYPE_BOOLEAN == parser->current_state->current_type)) {", "        (NULL != parser->current_state)) {")],
     'expect': {'C03': 'binson_parser_get_boolean'}},
    {'name': 'name_span_shifted', 'edits': [(P, "                state->current_name.bptr = consumed.bptr;\n                state->current_name.bsize = consumed.bsize;", "                state->current_name.bptr = consumed.bptr + (consumed.bsize > 0 ? 1 : 0);\n                state->current_name.bsize = consumed.bsize - (consumed.bsize > 0 ? 1 : 0);")],
     'expect': {'C03': 'span recorded', 'C01': None}},
    {'name': 'enc_int16_up_to_32768', 'edits': [(W, "        else if ((length >= INT16_MIN) && (length <= INT16_MAX)) {", "        else if ((length >= INT16_MIN) && (length <= INT16_MAX + 1)) {")],
     'expect': {'C05': '2-byte payload', 'C10': 'width 2'}},
    {'name': 'dec_int8_boundary', 'edits': [(P, "    else if (length_data->bsize == 2 && (*value < INT8_MIN || *value > INT8_MAX)) {", "    else if (length_data->bsize == 2 && (*value < INT8_MIN || *value >= INT8_MAX)) {")],
     'expect': {'C02': '2-byte integer', 'C10': '0x11'}},
    {'name': 'dec_accepts_0x17', 'edits': [(P, "        case BINSON_DEF_STRINGLEN_INT32:\n", "        case BINSON_DEF_STRINGLEN_INT32:\n        case 0x17:\n")],
     'expect': {'C02': '0x17'}},
    {'name': 'level_wipe_dropped', 'edits': [(P, "                    memset(parser->current_state, 0x00, sizeof(binson_state));\n", "")],
     'expect': {'C02': 'not zeroed'}},
    {'name': 'silent_parse_integer_switch', 'edits': [(P, '''    if ((*value >= INT8_MIN && *value <= INT8_MAX) && length_data->bsize == 1) {
        return true;
    }

    else if (length_data->bsize == 2 && (*value < INT8_MIN || *value > INT8_MAX)) {
        return true;
    }

    else if (length_data->bsize == 4 && (*value < INT16_MIN || *value > INT16_MAX)) {
        return true;
    }

    else if (length_data->bsize == 8 && (*value < INT32_MIN || *value > INT32_MAX)) {
        return true;
    }

    return false;''', '''    switch (length_data->bsize) {
        case 1:
            return (*value >= INT8_MIN && *value <= INT8_MAX);
        case 2:
            return !(*value >= INT8_MIN && *value <= INT8_MAX);
        case 4:
            return !(*value >= INT16_MIN && *value <= INT16_MAX);
        case 8:
            return !(*value >= INT32_MIN && *value <= INT32_MAX);
        default:
            return false;
    }''')],
     'expect': {'C02': None, 'C10': None}},
    # behaviour-preserving edits: every check must stay silent
    {'name': 'silent_boundary_reordered', 'edits': [(P, '''    size_t c = a + b;

    if (c > max) {
        /* Boundary violated */
        return false;
    }

    else if (c < a) {
        /* Unsigned overflow */
        return false;
    }

    return true;''', '''    size_t c = a + b;

    if (c < a) {
        /* Unsigned overflow */
        return false;
    }
    if (c > max) {
        /* Boundary violated */
        return false;
    }
    return true;''')],
     'expect': {'C01': None}},
    {'name': 'silent_boundary_subtract_form', 'edits': [(P, '''    size_t c = a + b;

    if (c > max) {
        /* Boundary violated */
        return false;
    }

    else if (c < a) {
        /* Unsigned overflow */
        return false;
    }

    return true;''', '''    if (a > max) {
        return false;
    }
    return b <= max - a;''')],
     'expect': {'C01': None}},
    {'name': 'silent_consume_helper', 'edits': [(P, """    data->bptr = &parser->buffer[parser->buffer_used];
    data->bsize = size;

    if (!peek) {
        parser->buffer_used += size;
    }

    return true;

}""", """    data->bptr = &parser->buffer[parser->buffer_used];
    data->bsize = size;

    if (!peek) {
        _skip_bytes(parser, size);
    }

    return true;

}

static void _skip_bytes(binson_parser *parser, size_t size)
{
    parser->buffer_used += size;
}"""), (P, "static bool _check_boundary(size_t a,\n                            size_t b,\n                            size_t max);\n", "static bool _check_boundary(size_t a,\n                            size_t b,\n                            size_t max);\nstatic void _skip_bytes(binson_parser *parser, size_t size);\n")],
     'expect': {'C01': None, 'C16': None}},
    {'name': 'silent_getter_early_returns', 'edits': [(P, """    if ((NULL != parser) &&
        (BINSON_ERROR_NONE == parser->error_flags) &&
        (NULL != parser->current_state) &&
        (BINSON_TYPE_INTEGER == parser->current_state->current_type)) {
        return parser->current_state->current_value.integer_value;
    }

    return 0;""", """    if (NULL == parser) {
        return 0;
    }
    if (BINSON_ERROR_NONE != parser->error_flags) {
        return 0;
    }
    if (NULL == parser->current_state) {
        return 0;
    }
    if (BINSON_TYPE_INTEGER != parser->current_state->current_type) {
        return 0;
    }
    return parser->current_state->current_value.integer_value;""")],
     'expect': {'C01': None, 'C03': None, 'C09': None}},
    {'name': 'silent_cmp_name_byte_loop', 'edits': [(P, """    int r = memcmp(a->bptr,
                   b->bptr,
                   MIN(a->bsize, b->bsize));

    if (r != 0) {
        return r;
    }
""", """    size_t n = MIN(a->bsize, b->bsize);
    size_t i;
    int r = 0;
    for (i = 0; i < n; i++) {
        if (a->bptr[i] != b->bptr[i]) {
            return (a->bptr[i] < b->bptr[i]) ? -1 : 1;
        }
    }

    if (r != 0) {
        return r;
    }
""")],
     'expect': {'C01': None, 'C18': None}},
    {'name': 'decoder_big_endian', 'edits': [(P, """    for (i = length_data->bsize; i > 0; i--) {
        ui64 <<= 8;
        ui64 |= length_data->bptr[i-1];
    }""", """    for (i = 0; i < length_data->bsize; i++) {
        ui64 <<= 8;
        ui64 |= length_data->bptr[i];
    }""")],
     'expect': {'C03': 'little-endian', 'C10': 'byte order'}},
    {'name': 'decoder_sign_from_first_byte', 'edits': [(P, "uint64_t ui64 = (length_data->bptr[length_data->bsize - 1] & 0x80) ? ~0ULL : 0;", "uint64_t ui64 = (length_data->bptr[0] & 0x80) ? ~0ULL : 0;")],
     'expect': {'C03': 'sign fill'}},
    {'name': 'encoder_big_endian', 'edits': [(W, "        buffer[1 + i] = (uint8_t) (uval & 0xFFU);", "        buffer[size - i] = (uint8_t) (uval & 0xFFU);")],
     'expect': {'C05': 'little-endian', 'C10': 'byte order', 'C04': None}},
    {'name': 'order_allows_duplicates', 'edits': [(P, "                    if (r >= 0) {\n                        parser->error_flags = BINSON_ERROR_FORMAT;", "                    if (r > 0) {\n                        parser->error_flags = BINSON_ERROR_FORMAT;")],
     'expect': {'C02': 'new field name is recorded'}},
    {'name': 'cmp_name_empty_is_equal', 'edits': [(P, """    if (a->bsize == b->bsize) {
        return 0;
    }
""", """    if (a->bsize == b->bsize || a->bsize == 0 || b->bsize == 0) {
        return 0;
    }
""")],
     'expect': {'C02': '_cmp_name can answer', 'C07': '_cmp_name can answer'}},
    {'name': 'cmp_name_prefix_only', 'edits': [(P, """    if (r != 0) {
        return r;
    }

    /* Equal prefix""", """    if (r != 0 || a->bsize > 0) {
        return r;
    }

    /* Equal prefix""")],
     'expect': {'C07': '_cmp_name can answer'}},
    {'name': 'write_rejects_exact_fit', 'edits': [(W, "    if (c > writer->buffer_size) {", "    if (c >= writer->buffer_size) {")],
     'expect': {'C04': 'although the piece fits'}},
    {'name': 'write_copies_one_less', 'edits': [(W, "memmove(&writer->buffer[writer->buffer_used], data->bptr, data->bsize);", "memmove(&writer->buffer[writer->buffer_used], data->bptr, data->bsize > 0 ? data->bsize - 1 : 0);")],
     'expect': {'C04': 'not stored as one contiguous copy'}},
]

# ---- C08: scan-mode independence of the per-token validation --------------------------------------------------
MUTANTS += [
    {'name': 'c08_order_check_only_when_not_skipping', 'edits': [(P, '''                if (state->current_name.bptr != NULL) {
                    int r = _cmp_name(&state->current_name, &consumed);''', '''                if (state->current_name.bptr != NULL &&
                    (CHECKBITMASK(scan_flags, BINSON_ADVANCE_VERIFY) || orig_object_depth == parser->depth)) {
                    int r = _cmp_name(&state->current_name, &consumed);''')],
     'expect': {'C08': 'MODE-ERR'}},
    {'name': 'c08_integer_form_only_in_verify', 'edits': [(P, '''                if (!_parse_integer(&consumed, &state->current_value.integer_value, true)) {
                    parser->error_flags = BINSON_ERROR_FORMAT;
                    break;
                }''', '''                if (!_parse_integer(&consumed, &state->current_value.integer_value, true) &&
                    CHECKBITMASK(scan_flags, BINSON_ADVANCE_VERIFY | BINSON_ADVANCE_VALUE)) {
                    parser->error_flags = BINSON_ERROR_FORMAT;
                    break;
                }''')],
     'expect': {'C08': 'MODE-ERR'}},
    {'name': 'c08_trailing_bytes_only_in_verify', 'edits': [(P, '''                        parser->current_state = &parser->state[0];
                        if (parser->buffer_used != parser->buffer_size) {''', '''                        parser->current_state = &parser->state[0];
                        if (CHECKBITMASK(scan_flags, BINSON_ADVANCE_VERIFY) && parser->buffer_used != parser->buffer_size) {''')],
     'expect': {'C08': 'MODE-ERR'}},
    {'name': 'c08_name_not_recorded_when_skipping', 'edits': [(P, '''                state->current_name.bptr = consumed.bptr;
                state->current_name.bsize = consumed.bsize;
                state->flags = BINSON_STATE_IN_OBJ_EXPECTING_VALUE;''', '''                if (CHECKBITMASK(scan_flags, BINSON_ADVANCE_VERIFY) || orig_object_depth == parser->depth) {
                    state->current_name.bptr = consumed.bptr;
                    state->current_name.bsize = consumed.bsize;
                }
                state->flags = BINSON_STATE_IN_OBJ_EXPECTING_VALUE;''')],
     'expect': {'C08': 'MODE-STATE'}},
    {'name': 'c08_array_end_state_check_skipped_on_leave', 'edits': [(P, '''                if (!CHECKBITMASK(state->flags, BINSON_STATE_IN_ARRAY)) {
                    parser->error_flags = BINSON_ERROR_FORMAT;
                    break;
                }
''', '''                if (!CHECKBITMASK(state->flags, BINSON_STATE_IN_ARRAY) &&
                    !CHECKBITMASK(scan_flags, BINSON_ADVANCE_LEAVE_OBJECT)) {
                    parser->error_flags = BINSON_ERROR_FORMAT;
                    break;
                }
''')],
     'expect': {'C08': 'MODE-ERR'}},
    # silent: the consume decision of OBJECT_BEGIN computed once into a local
    {'name': 'silent_c08_consume_flag_local', 'edits': [(P, '''                /* Check if we should continue. */
                if (CHECKBITMASK(scan_flags, BINSON_ADVANCE_VERIFY |
                                             BINSON_ADVANCE_ENTER_OBJECT |
                                             BINSON_ADVANCE_VALUE |
                                             BINSON_ADVANCE_LEAVE_ARRAY |
                                             BINSON_ADVANCE_LEAVE_OBJECT)) {''', '''                /* Check if we should continue. */
                ;
                bool take = (scan_flags & (BINSON_ADVANCE_VERIFY | BINSON_ADVANCE_ENTER_OBJECT | BINSON_ADVANCE_VALUE)) != 0;
                take = take || (scan_flags & (BINSON_ADVANCE_LEAVE_ARRAY | BINSON_ADVANCE_LEAVE_OBJECT)) != 0;
                if (take) {''')],
     'expect': {'C08': None}},
]

# ---- C06: cursor navigation vs the reference cursor (extracted machine) ----------------------------------------
MUTANTS += [
    {'name': 'c06_f4_reverted', 'edits': [(P, '''                else if (state->flags == BINSON_STATE_IN_OBJ_EXPECTING_FIELD) {
                    state->flags = BINSON_STATE_IN_OBJ_EXPECTING_VALUE;
                }
                break;
            case BINSON_STATE_PARSED_ARRAY_END:''', '''                else {
                    state->flags = BINSON_STATE_IN_OBJ_EXPECTING_VALUE;
                }
                break;
            case BINSON_STATE_PARSED_ARRAY_END:''')],
     'expect': {'C06': 'leave_array'}},
    {'name': 'c06_f5_reverted', 'edits': [(P, '''                    else {
                        /* Back in the enclosing array: no container element is pending. */
                        state->flags = BINSON_STATE_IN_ARRAY_1;
                    }
''', '')],
     'expect': {'C06': 'next'}},
    {'name': 'c06_scalar_in_array_does_not_stop', 'edits': [(P, '''                else {
                    CLEARBITMASK(scan_flags, BINSON_ADVANCE_VALUE);
                }
            }
        }''', '''                else if (next_state != BINSON_STATE_PARSED_BOOLEAN) {
                    CLEARBITMASK(scan_flags, BINSON_ADVANCE_VALUE);
                }
            }
        }''')],
     'expect': {'C06': 'next'}},
    {'name': 'c06_container_in_array_not_stopped_at', 'edits': [(P, '''                    if (CHECKBITMASK(state->flags, BINSON_STATE_IN_ARRAY_1)) {
                        state->flags = BINSON_STATE_IN_ARRAY_2;
                        CLEARBITMASK(scan_flags, BINSON_ADVANCE_VALUE);
                    }''', '''                    if (CHECKBITMASK(state->flags, BINSON_STATE_IN_ARRAY_1)) {
                        state->flags = BINSON_STATE_IN_ARRAY_2;
                        if (next_state == BINSON_STATE_PARSED_OBJECT_BEGIN) {
                            CLEARBITMASK(scan_flags, BINSON_ADVANCE_VALUE);
                        }
                    }''')],
     'expect': {'C06': 'next'}},
    {'name': 'c06_leave_object_keeps_depth_at_root', 'edits': [(P, '''                    else if (parser->depth == 1) {
                        parser->depth--;
                        parser->current_state = &parser->state[0];''', '''                    else if (parser->depth == 1) {
                        parser->current_state = &parser->state[0];''')],
     'expect': {'C06': 'leave_object'}},
    {'name': 'c06_leave_array_maps_false_to_false', 'edits': [(P, '''    bool ret = _advance(parser, BINSON_ADVANCE_LEAVE_ARRAY);
    if (!ret) {
        return (parser->error_flags == BINSON_ERROR_NONE);
    }''', '''    bool ret = _advance(parser, BINSON_ADVANCE_LEAVE_ARRAY);
    if (!ret) {
        return false;
    }''')],
     'expect': {'C06': 'leave_array'}},
    {'name': 'c06_name_does_not_stop_lookup_level', 'edits': [(P, '''                    CLEARBITMASK(scan_flags, BINSON_ADVANCE_VALUE);
                }

                state->current_name.bptr = consumed.bptr;''', '''                    if (state->array_depth == 0 && parser->depth < 3) {
                        CLEARBITMASK(scan_flags, BINSON_ADVANCE_VALUE);
                    }
                }

                state->current_name.bptr = consumed.bptr;''')],
     'expect': {'C06': 'next'}},
]

# ---- C11: exact span of get_raw ---------------------------------------------------------------------------------
MUTANTS += [
    {'name': 'c11_raw_size_without_end_byte', 'edits': [(P, '''        if (_advance(parser, BINSON_ADVANCE_ENTER_ARRAY) &&
            _advance(parser, BINSON_ADVANCE_LEAVE_ARRAY)) {
            raw->bsize = parser->buffer_used - current_pos;''', '''        if (_advance(parser, BINSON_ADVANCE_ENTER_ARRAY) &&
            _advance(parser, BINSON_ADVANCE_LEAVE_ARRAY)) {
            raw->bsize = parser->buffer_used - current_pos - 1;''')],
     'expect': {'C11': 'SPAN-FORM'}},
    {'name': 'c11_raw_array_left_as_object', 'edits': [(P, '''        if (_advance(parser, BINSON_ADVANCE_ENTER_ARRAY) &&
            _advance(parser, BINSON_ADVANCE_LEAVE_ARRAY)) {''', '''        if (_advance(parser, BINSON_ADVANCE_ENTER_ARRAY) &&
            _advance(parser, BINSON_ADVANCE_LEAVE_OBJECT)) {''')],
     'expect': {'C11': 'SPAN-EXACT', 'C06': 'get_raw'}},
]

# ---- C07: lookups on the extracted machine ----------------------------------------------------------------------------
MUTANTS += [
    {'name': 'c07_lookup_overshoot_not_rewound_flags', 'edits': [(P, '''                            parser->buffer_used -= bytes_consumed;
                            state->flags = BINSON_STATE_IN_OBJ_EXPECTING_FIELD;
                            return false;''', '''                            parser->buffer_used -= bytes_consumed;
                            return false;''')],
     'expect': {'C07': 'expecting a field'}},
    {'name': 'c07_lookup_found_on_greater_or_equal', 'edits': [(P, '''        r = _cmp_name(&scan_name, &parser->current_state->current_name);
        if (0 == r) {
            return true;
        }''', '''        r = _cmp_name(&scan_name, &parser->current_state->current_name);
        if (0 >= r) {
            return true;
        }''')],
     'expect': {'C07': None}},   # equivalent: after a successful step the recorded name is never greater than the wanted one
    {'name': 'c07_lookup_overshoot_on_equal', 'edits': [(P, '''                        int r = _cmp_name(&consumed, scan_name);
                        if (r > 0) {''', '''                        int r = _cmp_name(&consumed, scan_name);
                        if (r >= 0) {''')],
     'expect': {'C07': 'LOOKUP'}},
    {'name': 'c07_lookup_stops_only_at_depth_one', 'edits': [(P, '''                    if ((NULL != scan_name)) {
                        int r = _cmp_name(&consumed, scan_name);''', '''                    if ((NULL != scan_name) && parser->depth < 3) {
                        int r = _cmp_name(&consumed, scan_name);''')],
     'expect': {'C07': 'LOOKUP'}},
    # silent: the redundant early exit of the lookup loop removed (the token loop has already rewound on an overshoot)
    {'name': 'silent_c07_lookup_loop_without_break', 'edits': [(P, '''        else if (r < 0) {
            /* Necessary? */
            break;
        }''', '''        else if (r < 0) {
            /* cannot happen: the token loop rewinds and returns false on an overshoot */
            return false;
        }''')],
     'expect': {'C07': None}},
]

# ---- C02 (f): verify's verdict on bounded token sequences ----------------------------------------------------------------
MUTANTS += [
    {'name': 'c02_duplicate_names_accepted', 'edits': [(P, '''                    int r = _cmp_name(&state->current_name, &consumed);

                    if (r >= 0) {''', '''                    int r = _cmp_name(&state->current_name, &consumed);

                    if (r > 0) {''')],
     'expect': {'C02': 'C02'}},
    {'name': 'c02_object_end_after_name_accepted', 'edits': [(P, '''                if (!CHECKBITMASK(state->flags, BINSON_STATE_IN_OBJ_EXPECTING_FIELD)) {
                    parser->error_flags = BINSON_ERROR_FORMAT;
                    break;
                }''', '''                if (!CHECKBITMASK(state->flags, BINSON_STATE_IN_OBJECT)) {
                    parser->error_flags = BINSON_ERROR_FORMAT;
                    break;
                }''')],
     'expect': {'C02': 'LANG'}},
    {'name': 'c02_value_without_name_accepted', 'edits': [(P, '''                if (CHECKBITMASK(state->flags, BINSON_STATE_IN_OBJ_EXPECTING_VALUE)) {
                    state->flags = BINSON_STATE_IN_OBJ_EXPECTING_FIELD;
                }
                else {
                    parser->error_flags = BINSON_ERROR_FORMAT;
                    return false;
                }''', '''                if (CHECKBITMASK(state->flags, BINSON_STATE_IN_OBJ_EXPECTING_VALUE) ||
                    next_state == BINSON_STATE_PARSED_BOOLEAN) {
                    state->flags = BINSON_STATE_IN_OBJ_EXPECTING_FIELD;
                }
                else {
                    parser->error_flags = BINSON_ERROR_FORMAT;
                    return false;
                }''')],
     'expect': {'C02': 'LANG'}},
    {'name': 'c02_root_end_without_size_check', 'edits': [(P, '''                        parser->current_state = &parser->state[0];
                        if (parser->buffer_used != parser->buffer_size) {
                            parser->error_flags = BINSON_ERROR_FORMAT;
                        }''', '''                        parser->current_state = &parser->state[0];''')],
     'expect': {'C02': 'LANG'}},   # 40 41 41 is accepted: the loop returns at the first root END
    {'name': 'c02_name_order_forgotten_after_nested_object', 'edits': [(P, '''                    parser->buffer_used += 1;
                    memset(parser->current_state, 0x00, sizeof(binson_state));
                    if (parser->depth > 1) {
                        parser->depth--;
                        parser->current_state = &parser->state[parser->depth - 1];
                    }''', '''                    parser->buffer_used += 1;
                    memset(parser->current_state, 0x00, sizeof(binson_state));
                    if (parser->depth > 1) {
                        parser->depth--;
                        parser->current_state = &parser->state[parser->depth - 1];
                        parser->current_state->current_name.bptr = NULL;
                    }''')],
     'expect': {'C02': 'LANG'}},
]

# ---- C14 RENDER: separator structure of the text --------------------------------------------------------------------------
MUTANTS += [
    {'name': 'c14_f6_reverted', 'edits': [(P, '''            else {
                /* The object was a field value: a following field needs a separator. */
                *pstate = 0x02;
            }
            printf("}");''', '''            printf("}");'''), (P, '''            else {
                /* The object was a field value: a following field needs a separator. */
                *pstate = 0x02;
            }
            ret = snprintf(pbuf, available, "}");''', '''            ret = snprintf(pbuf, available, "}");''')],
     'expect': {'C14': 'RENDER'}},
    {'name': 'c14_comma_before_first_array_element_after_nested', 'edits': [(P, '''        case BINSON_STATE_PARSED_ARRAY_BEGIN:
            *pstate = 0x04;
            printf("[");''', '''        case BINSON_STATE_PARSED_ARRAY_BEGIN:
            *pstate = (state->array_depth > 1) ? 0x05 : 0x04;
            printf("[");'''), (P, '''        case BINSON_STATE_PARSED_ARRAY_BEGIN:
            *pstate = 0x04;
            ret = snprintf(pbuf, available, "[");''', '''        case BINSON_STATE_PARSED_ARRAY_BEGIN:
            *pstate = (state->array_depth > 1) ? 0x05 : 0x04;
            ret = snprintf(pbuf, available, "[");''')],
     'expect': {'C14': 'RENDER'}},
]

# ---- C07 ENSURE ------------------------------------------------------------------------------------------------------------
MUTANTS += [
    {'name': 'c07_ensure_wrong_type_not_latched', 'edits': [(P, '''        if (field_type == binson_parser_get_type(parser)) {
            return true;
        }
        parser->error_flags = BINSON_ERROR_WRONG_TYPE;''', '''        if (field_type == binson_parser_get_type(parser)) {
            return true;
        }''')],
     'expect': {'C07': 'ENSURE'}},
    {'name': 'c07_next_ensure_accepts_containers_as_any', 'edits': [(P, '''    if (parser->current_state->current_type != field_type) {
        parser->error_flags = BINSON_ERROR_WRONG_TYPE;
        return false;
    }''', '''    if (parser->current_state->current_type != field_type &&
        parser->current_state->current_type != BINSON_TYPE_OBJECT) {
        parser->error_flags = BINSON_ERROR_WRONG_TYPE;
        return false;
    }''')],
     'expect': {'C07': 'ENSURE'}},
]

MUTANTS += [
    {'name': 'c08_array_limit_on_entry_snapshot', 'edits': [(P, '''                if (state->array_depth >= UINT8_MAX) {
                    parser->error_flags = BINSON_ERROR_MAX_DEPTH_ARRAY;''', '''                if (orig_array_depth >= UINT8_MAX) {
                    parser->error_flags = BINSON_ERROR_MAX_DEPTH_ARRAY;''')],
     'expect': {'C08': 'ORIG-ERR', 'C02': 'C02(c)'}},
]

# ---- seeds whose patch no longer applies after the F3 fix rewrote _cmp_name, ported to the current body ----------------------
_CMP_BODY = '''    int r = memcmp(a->bptr,
                   b->bptr,
                   MIN(a->bsize, b->bsize));

    if (r != 0) {
        return r;
    }

    /* Equal prefix: order by length. (The size_t difference does not fit an int.) */
    if (a->bsize == b->bsize) {
        return 0;
    }

    return (a->bsize < b->bsize) ? -1 : 1;
}'''
MUTANTS += [
    {'name': 'seed_c02_cmp_name_empty_ported', 'edits': [(P, _CMP_BODY, '''    size_t n = MIN(a->bsize, b->bsize);
    int r = 0;

    if (n > 0) {
        r = memcmp(a->bptr, b->bptr, n);
        if (0 == r) {
            r = (a->bsize > b->bsize) - (a->bsize < b->bsize);
        }
    }

    return r;
}''')],
     'expect': {'C02': '_cmp_name can answer'}},
    {'name': 'seed_c18_cmp_name_signed_char_ported', 'edits': [(P, _CMP_BODY, '''    const char *pa = (const char *) a->bptr;
    const char *pb = (const char *) b->bptr;
    size_t n = MIN(a->bsize, b->bsize);
    size_t i;

    for (i = 0; i < n; i++) {
        if (pa[i] != pb[i]) {
            return (pa[i] < pb[i]) ? -1 : 1;
        }
    }

    if (a->bsize == b->bsize) {
        return 0;
    }

    return (a->bsize < b->bsize) ? -1 : 1;
}''')],
     'expect': {'C18': 'char'}},
]

# ---- C14 FORMAT: value conversions (both callbacks changed alike: the sibling rule is silent) --------------------------------
MUTANTS += [
    {'name': 'c14_hex_upper_case', 'edits': [(P, 'printf("%02x", state->current_value.bytes_value.bptr[i]);', 'printf("%02X", state->current_value.bytes_value.bptr[i]);'),
                                             (P, '"%02x", state->current_value.bytes_value.bptr[i]);', '"%02X", state->current_value.bytes_value.bptr[i]);')],
     'expect': {'C14': 'FORMAT'}},
    {'name': 'c14_integer_as_int', 'edits': [(P, 'printf("%" PRId64 "", state->current_value.integer_value);', 'printf("%d", (int) state->current_value.integer_value);'),
                                             (P, '"%" PRId64 "", state->current_value.integer_value);', '"%d", (int) state->current_value.integer_value);')],
     'expect': {'C14': 'FORMAT'}},
    {'name': 'c14_bool_words_swapped', 'edits': [(P, 'printf("%s", (state->current_value.bool_value) ? "true" : "false");', 'printf("%s", (!state->current_value.bool_value) ? "true" : "false");'),
                                                 (P, '"%s", (state->current_value.bool_value) ? "true" : "false");', '"%s", (!state->current_value.bool_value) ? "true" : "false");')],
     'expect': {'C14': 'FORMAT'}},
]

# ---- silent: the token loop in do-while form (the machine-based checks must still extract it) -------------------------------
MUTANTS += [
    {'name': 'silent_token_loop_do_while', 'edits': [(P, '''    while (proceed) {
        proceed = false;
        state = &parser->state[(parser->depth > 0) ? parser->depth - 1 : 0];
''', '''    do {
        proceed = false;
        state = &parser->state[(parser->depth > 0) ? parser->depth - 1 : 0];
'''), (P, '''            proceed = true;
        }


    }

    return (BINSON_ERROR_NONE == parser->error_flags);''', '''            proceed = true;
        }


    } while (proceed);

    return (BINSON_ERROR_NONE == parser->error_flags);''')],
     'expect': {'C06': None, 'C08': None, 'C02': None, 'C14': None, 'C11': None, 'C07': None, 'C03': None, 'C01': None, 'C09': None,
                'C12': None, 'C13': None, 'C16': None, 'C18': None}},
]

# ---- more silent rewrites aimed at the machine-based checks -------------------------------------------------------------------
MUTANTS += [
    # the level-state encoding renumbered (IN_ARRAY_1/2 moved to other bits): internal, no behaviour change
    {'name': 'silent_level_flags_renumbered', 'edits': [(P, '''#define BINSON_STATE_IN_ARRAY_1             (0x0004U)
#define BINSON_STATE_IN_ARRAY_2             (0x0008U)
#define BINSON_STATE_IN_ARRAY               (0x000CU)''', '''#define BINSON_STATE_IN_ARRAY_1             (0x0040U)
#define BINSON_STATE_IN_ARRAY_2             (0x0100U)
#define BINSON_STATE_IN_ARRAY               (0x0140U)''')],
     'expect': {'C06': None, 'C08': None, 'C02': None, 'C07': None, 'C11': None, 'C14': None, 'C16': None, 'C01': None}},
    # leave_object looks at the level through current_state instead of indexing the array (equal by the A1 invariant)
    {'name': 'silent_leave_object_via_current_state', 'edits': [(P, '''    binson_state *state = &parser->state[(parser->depth > 0) ? parser->depth - 1 : 0];
    if (!CHECKBITMASK(state->flags, BINSON_STATE_IN_OBJECT)) {''', '''    binson_state *state = parser->current_state;
    if (!CHECKBITMASK(state->flags, BINSON_STATE_IN_OBJECT)) {''')],
     'expect': {'C06': None, 'C08': None, 'C01': None, 'C09': None}},
    # statements of the OBJECT_BEGIN branch reordered
    {'name': 'silent_object_begin_reordered', 'edits': [(P, '''                    CLEARBITMASK(scan_flags, BINSON_ADVANCE_ENTER_OBJECT);
                    parser->buffer_used += 1;
                    if ((parser->depth < UINT8_MAX) &&
                        (parser->depth < parser->max_depth)) {
                        parser->depth++;''', '''                    if ((parser->depth < UINT8_MAX) &&
                        (parser->depth < parser->max_depth)) {
                        CLEARBITMASK(scan_flags, BINSON_ADVANCE_ENTER_OBJECT);
                        parser->buffer_used += 1;
                        parser->depth++;'''), (P, '''                    else {
                        parser->error_flags = BINSON_ERROR_MAX_DEPTH_OBJECT;
                        break;
                    }''', '''                    else {
                        CLEARBITMASK(scan_flags, BINSON_ADVANCE_ENTER_OBJECT);
                        parser->buffer_used += 1;
                        parser->error_flags = BINSON_ERROR_MAX_DEPTH_OBJECT;
                        break;
                    }''')],
     'expect': {'C06': None, 'C08': None, 'C02': None, 'C01': None, 'C16': None}},
]

MUTANTS += [
    {'name': 'silent_object_flags_renumbered', 'edits': [(P, '''#define BINSON_STATE_IN_OBJ_EXPECTING_FIELD (0x0001U)
#define BINSON_STATE_IN_OBJ_EXPECTING_VALUE (0x0002U)
#define BINSON_STATE_IN_OBJECT              (0x0003U)''', '''#define BINSON_STATE_IN_OBJ_EXPECTING_FIELD (0x0010U)
#define BINSON_STATE_IN_OBJ_EXPECTING_VALUE (0x0020U)
#define BINSON_STATE_IN_OBJECT              (0x0030U)''')],
     'expect': {'C07': None, 'C06': None, 'C08': None, 'C02': None, 'C16': None, 'C01': None, 'C12': None}},
]

MUTANTS += [
    # the separator states of the text callbacks renumbered (0..5 -> 0x10..0x15): internal, no behaviour change
    {'name': 'silent_pstate_renumbered', 'edits': [
        (P, 'uint8_t pstate = 0x00;', 'uint8_t pstate = 0x10;'),
        (P, 'ctx.pstate = 0;', 'ctx.pstate = 0x10;'),
    ],
     'expect': {'C14': None}, 'sed': [('\\*pstate == 0x0([0-5])', '*pstate == 0x1\\1'), ('\\*pstate = 0x0([0-5])', '*pstate = 0x1\\1')]},
]

MUTANTS += [
    # the decoder's internal next-state codes and the scan-mode bits renumbered: internal, no behaviour change
    {'name': 'silent_next_state_codes_renumbered', 'edits': [(P, '''#define BINSON_STATE_PARSED_STRING          (0x0010U)
#define BINSON_STATE_PARSED_BOOLEAN         (0x0020U)
#define BINSON_STATE_PARSED_DOUBLE          (0x0040U)
#define BINSON_STATE_PARSED_INTEGER         (0x0080U)''', '''#define BINSON_STATE_PARSED_STRING          (0x0080U)
#define BINSON_STATE_PARSED_BOOLEAN         (0x0040U)
#define BINSON_STATE_PARSED_DOUBLE          (0x0020U)
#define BINSON_STATE_PARSED_INTEGER         (0x0010U)''')],
     'expect': {'C02': None, 'C10': None, 'C14': None, 'C06': None, 'C08': None, 'C03': None, 'C05': None}},
    {'name': 'silent_scan_modes_renumbered', 'edits': [(P, '''#define BINSON_ADVANCE_VERIFY               (0x01U)
#define BINSON_ADVANCE_ENTER_OBJECT         (0x02U)
#define BINSON_ADVANCE_LEAVE_OBJECT         (0x04U)
#define BINSON_ADVANCE_ENTER_ARRAY          (0x08U)
#define BINSON_ADVANCE_LEAVE_ARRAY          (0x10U)
#define BINSON_ADVANCE_VALUE                (0x20U)''', '''#define BINSON_ADVANCE_VERIFY               (0x20U)
#define BINSON_ADVANCE_ENTER_OBJECT         (0x10U)
#define BINSON_ADVANCE_LEAVE_OBJECT         (0x08U)
#define BINSON_ADVANCE_ENTER_ARRAY          (0x04U)
#define BINSON_ADVANCE_LEAVE_ARRAY          (0x02U)
#define BINSON_ADVANCE_VALUE                (0x01U)''')],
     'expect': {'C02': None, 'C06': None, 'C07': None, 'C08': None, 'C11': None, 'C14': None, 'C16': None, 'C01': None, 'C03': None}},
]

MUTANTS += [
    # the writer's width choice rewritten with the (correct) unsigned-bias idiom and the packing loop counting down
    {'name': 'silent_int_pack_bias_idiom', 'edits': [(W, '''        if ((length >= INT8_MIN) && (length <= INT8_MAX)) {
            size = sizeof(int8_t);
        }
        else if ((length >= INT16_MIN) && (length <= INT16_MAX)) {
            buffer[0] += 1;
            size = sizeof(int16_t);
        }
        else if ((length >= INT32_MIN) && (length <= INT32_MAX)) {
            buffer[0] += 2;
            size = sizeof(int32_t);
        }''', '''        uint64_t biased = (uint64_t) length;
        if ((biased + 0x80U) < 0x100U) {
            size = sizeof(int8_t);
        }
        else if ((biased + 0x8000U) < 0x10000U) {
            buffer[0] += 1;
            size = sizeof(int16_t);
        }
        else if ((biased + 0x80000000U) <= 0xFFFFFFFFU) {
            buffer[0] += 2;
            size = sizeof(int32_t);
        }''')],
     'expect': {'C05': None, 'C10': None, 'C04': None, 'C18': None}},
]

MUTANTS += [
    # to_string: the remaining space computed with a conditional expression and the bookkeeping after the ',' written as a subtraction
    {'name': 'silent_to_string_available_forms', 'edits': [(P, '''    size_t available = 0;
    if (ctx->buffer_used < ctx->buffer_size) {
        available = ctx->buffer_size - ctx->buffer_used;
    }
''', '''    size_t available = (ctx->buffer_size > ctx->buffer_used) ? (ctx->buffer_size - ctx->buffer_used) : 0;
'''), (P, '''        pbuf = &ctx->buffer[ctx->buffer_used];
        if (available > 0) {
            available--;
        }
    }

    if (*pstate == 0x04) {''', '''        pbuf = &ctx->buffer[ctx->buffer_used];
        if (available >= 1) {
            available = available - 1;
        }
    }

    if (*pstate == 0x04) {''')],
     'expect': {'C13': None, 'C01': None, 'C14': None}},
    # writer reset: the two assignments swapped and the size test written the other way round
    {'name': 'silent_writer_reset_reordered', 'edits': [(W, '''    if (writer->buffer_size < 2) {
        writer->error_flags = BINSON_ERROR_RANGE;
        return false;
    }

    writer->buffer_used = 0;
    writer->error_flags = BINSON_ERROR_NONE;''', '''    if (!(writer->buffer_size >= 2)) {
        writer->error_flags = BINSON_ERROR_RANGE;
        return false;
    }

    writer->error_flags = BINSON_ERROR_NONE;
    writer->buffer_used = 0;''')],
     'expect': {'C12': None, 'C04': None, 'C09': None}},
]

MUTANTS += [
    # type-byte bases taken from a read-only table instead of literals (const data, no writable static)
    {'name': 'silent_writer_const_table', 'edits': [(W, '''static uint8_t _int_pack_size(int64_t length, uint8_t *buffer, bool is_double)
{''', '''static const uint8_t _type_base[4] = { BINSON_DEF_INT8, BINSON_DEF_DOUBLE, BINSON_DEF_STRINGLEN_INT8, BINSON_DEF_BYTESLEN_INT8 };

static uint8_t _int_pack_size(int64_t length, uint8_t *buffer, bool is_double)
{'''), (W, '            pack_buffer[0] = BINSON_DEF_INT8;', '            pack_buffer[0] = _type_base[0];'),
        (W, '''            pack_buffer[0] = BINSON_DEF_STRINGLEN_INT8;
            if (BINSON_TYPE_BYTES == type) {
                pack_buffer[0] = BINSON_DEF_BYTESLEN_INT8;
            }''', '''            pack_buffer[0] = _type_base[(BINSON_TYPE_BYTES == type) ? 3 : 2];''')],
     'expect': {'C17': None, 'C05': None, 'C10': None, 'C04': None}},
]

MUTANTS += [
    # C++ wrapper: results stored in named locals before they are tested; explicit throw instead of the helper
    {'name': 'silent_cpp_results_in_locals', 'edits': [(CPP, '''    ifRuntimeError(binson_parser_init(&p, const_cast<uint8_t*>(data), size), "Parser init error");
    deserialize(&p);''', '''    const bool initialised = binson_parser_init(&p, const_cast<uint8_t*>(data), size);
    if (!initialised) {
        throw std::runtime_error("Parser init error");
    }
    deserialize(&p);'''), (CPP, '''    ifRuntimeError(binson_parser_leave_object(p), "Parse error");
}''', '''    bool left = binson_parser_leave_object(p);
    ifRuntimeError(left, "Parse error");
}''')],
     'expect': {'C15': None}},
]

MUTANTS += [
    {'name': 'c11_to_writer_drops_end_byte', 'edits': [(W, '    return binson_write_raw(writer, raw.bptr, raw.bsize);', '    return binson_write_raw(writer, raw.bptr, raw.bsize - 1);')],
     'expect': {'C11': 'TO-WRITER'}},
    {'name': 'c11_to_writer_writes_on_failure', 'edits': [(W, '''    if (!binson_parser_get_raw(parser, &raw)) {
        return false;
    }''', '''    if (!binson_parser_get_raw(parser, &raw)) {
        writer->error_flags = BINSON_ERROR_WRONG_TYPE;
        return false;
    }''')],
     'expect': {'C11': 'TO-WRITER'}},
]

MUTANTS += [
    {'name': 'silent_parser_reset_reordered', 'edits': [(P, '''    memset(parser->state, 0x00U, (sizeof(binson_state)*parser->max_depth));
    parser->error_flags = BINSON_ERROR_NONE;
    parser->buffer_used     = 0;
    parser->state[0].flags  = BINSON_STATE_UNDEFINED;
    parser->current_state = &parser->state[0];''', '''    parser->current_state = &parser->state[0];
    parser->buffer_used     = 0;
    memset(parser->state, 0x00U, (sizeof(binson_state)*parser->max_depth));
    parser->current_state->flags = BINSON_STATE_UNDEFINED;
    parser->error_flags = BINSON_ERROR_NONE;''')],
     'expect': {'C12': None, 'C01': None, 'C02': None, 'C09': None}},
]

MUTANTS += [
    # _process_one: the prefix width computed with a small table-free expression, the length range test split in two
    {'name': 'silent_process_one_length_forms', 'edits': [(P, '''            type = consumed->bptr[0];

            /* Flag 0x03 will tell if the size is 1, 2, 4 or 8 bytes. */
            to_consume = 1U << (consumed->bptr[0] & 0x03U);
            if (!_consume(parser, consumed, to_consume, false)) {''', '''            type = consumed->bptr[0];

            /* Flag 0x03 will tell if the size is 1, 2, 4 or 8 bytes. */
            to_consume = ((type & 0x03U) == 0U) ? 1U : (((type & 0x03U) == 1U) ? 2U : (((type & 0x03U) == 2U) ? 4U : 8U));
            if (!_consume(parser, consumed, to_consume, false)) {'''), (P, '''            if (!((0 <= length_value) && (length_value <= INT32_MAX))) {
                parser->error_flags = BINSON_ERROR_FORMAT;
                break;
            }''', '''            if (length_value < 0) {
                parser->error_flags = BINSON_ERROR_FORMAT;
                break;
            }
            if (length_value > INT32_MAX) {
                parser->error_flags = BINSON_ERROR_FORMAT;
                break;
            }''')],
     'expect': {'C01': None, 'C02': None, 'C03': None, 'C13': None, 'C16': None, 'C18': None, 'C10': None}},
]
