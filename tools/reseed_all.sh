#!/bin/bash
# re-runs every recorded seeded change against the current checks: tools/reseed_all.sh [name-prefix]
# for each seeded/<name>/patch.diff that still applies to /repo HEAD, the properties named in meta.json "caught_by"
# (whose text does not start with "silent" or "NOT"/"not caught") must give exit 1
cd /verif
for d in seeded/*/; do
  n=$(basename $d)
  [ -n "$1" ] && [[ "$n" != $1* ]] && continue
  [ -f $d/patch.diff ] || continue
  wt=$(mktemp -d /tmp/wt-reseed-XXXX)
  git -C /repo worktree add -q --detach $wt HEAD
  if ! git -C $wt apply /verif/$d/patch.diff 2>/dev/null && ! (cd $wt && patch -p1 -s -F 3 < /verif/$d/patch.diff >/dev/null 2>&1); then
    echo "SKIP  $n (patch no longer applies)"
    git -C /repo worktree remove --force $wt
    continue
  fi
  props=$(python3 - "$d/meta.json" <<'E'
import json, sys
m = json.load(open(sys.argv[1]))
out = []
for p, t in m.get('caught_by', {}).items():
    tl = t.lower()
    if tl.startswith('silent') or tl.startswith('not caught') or tl.startswith('not ') or tl.startswith('analysis broken'):
        continue
    out.append(p)
print(' '.join(out))
E
)
  for p in $props; do
    out=$(VERIF_REPO=$wt timeout 3000 ./check $p --no-evidence 2>&1); rc=$?
    echo "$( [ $rc -eq 1 ] && echo OK || echo FAIL )  $n $p exit=$rc"
  done
  git -C /repo worktree remove --force $wt
  rm -rf /tmp/binson-replay-*
done
