#!/bin/bash
# runs every claimed check (quick tier by default) and prints one line per property
cd /verif
tier=${1:-quick}
for p in C01 C02 C03 C04 C05 C06 C07 C08 C09 C10 C11 C12 C13 C14 C15 C16 C17 C18; do
  out=$(timeout 6000 ./check $p --tier $tier 2>&1); rc=$?
  echo "$p exit=$rc $(echo "$out" | grep -v '^VIOLATION' | tail -1 | cut -c1-160)"
done
