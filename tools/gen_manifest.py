#!/usr/bin/env python3
"""Regenerates /verif/MANIFEST.json from the table below (single source of truth)."""
import json, os, sys
HERE = os.path.dirname(os.path.dirname(os.path.abspath(__file__)))

CLAIMED = {}   # pid -> dict(cat, text, note, tech, ref)
NA = {
}
PENDING = "check under construction in this round (abstract interpreter not yet committed for this property); it will be claimed once its check passes soundly on the tree"

def claim(pid, cat, text, note, tech, ref):
    CLAIMED[pid] = dict(cat=cat, text=text, note=note, tech=tech, ref=ref)

claim("C15", "other",
      "Three flow rules on the IR of src/binson.cpp decide the clause 'never acts on an unchecked or uninitialised parser': R1 every result of init/reset/verify/go_into/leave is tested, R2 every use of a local parser is dominated by the success edge of its init check, R3 every next()-driven loop is followed by a latch check before a normal return. The round-trip equalities of the statement are value-level and are NOT decided.",
      "Helpers (ifRuntimeError, CheckParserState) are recognised by shape, not name; trusts clang++ IR, engine/irload.py, engine/flow.py. Exceptions thrown by the C++ runtime itself are not modelled.",
      "static analysis: use-def / dominance / must-pass-through rules over the C++ unit's LLVM IR", "DESIGN.md section 4 C15")
claim("C17", "proof",
      "Exhaustive enumeration over the compiled objects and IR of every build configuration: undefined symbols vs allow-list, no writable data symbols, every stack-usage record static, no alloca of variable size, call graph (direct + all address-taken targets for the indirect call) acyclic. 'Never on any input' is a property of the code, so enumeration over the code is a proof.",
      "Trusts clang/gcc object emission, nm, gcc -fstack-usage/-fcallgraph-info and engine/irload.py; libc functions on the allow-list are assumed not to allocate on the library's behalf.",
      "static analysis: object-code symbol/stack-usage enumeration + IR call-graph SCC check", "DESIGN.md section 4 C17")
claim("C18", "translation_validation",
      "Clause (a): every unit compiled with -fsigned-char and -funsigned-char yields instruction-identical LLVM IR at -O2 (and -O0, reported), so no compiled behaviour can depend on plain-char signedness. Clause (b): the arithmetic whose meaning moves between compilers and flags and is still visible in the IR - every nsw add/sub/mul, every shift amount, every divisor, every size_t->int conversion feeding a %.*s precision - is shown by the abstract interpreter not to overflow / to stay below the width / to preserve the value, in every no-error calling context. Cross-compiler/optimisation-level equality of observable outputs is a run-time differential property and is NOT decided; the strict-aliasing pun on the double is visible but not armed (no misbehaviour can be shown with the compilers present).",
      "Identical IR implies identical behaviour for a fixed back end; normalisation drops only metadata/attribute groups.",
      "static analysis: IR identity (translation validation) across char-signedness builds + abstract-interpretation UB obligations", "DESIGN.md section 4 C18")

EXTRA = os.path.join(HERE, 'tools', 'manifest_claims.py')
if os.path.exists(EXTRA):
    exec(open(EXTRA).read())

ALL = ["C%02d" % i for i in range(1, 19)]
checks = []
for pid in ALL:
    if pid in CLAIMED:
        c = CLAIMED[pid]
        checks.append({
            "property_id": pid,
            "quick_cmd": "./check %s --tier quick" % pid,
            "thorough_cmd": "./check %s --tier thorough" % pid,
            "evidence_file": "/verif/evidence/%s.json" % pid,
            "engine": "check",
            "level_claimed": {"category": c['cat'], "text": c['text'], "design_ref": c['ref']},
            "level_note": c['note'],
            "technique": c['tech']})
na = []
for pid in ALL:
    if pid not in CLAIMED:
        na.append({"property_id": pid, "reason": NA.get(pid, PENDING)})
m = {"version": 1,
     "setup_cmd": "python3 -c \"import sys; assert sys.version_info >= (3,8)\" && clang-14 --version >/dev/null && clang++ --version >/dev/null && opt-14 --version >/dev/null && llvm-link-14 --version >/dev/null && llvm-cxxfilt-14 --version >/dev/null && gcc --version >/dev/null && nm --version >/dev/null",
     "hooks": {"guard": "BINSON_VERIF", "enable": "none needed: the analyses read the unmodified source (no hook commits)",
               "baseline_off_cmd": "cmake -G Ninja -S /repo -B /repo/_build -DBUILD_TESTS=ON -DCMAKE_BUILD_TYPE=RelWithDebInfo && cmake --build /repo/_build && ctest --test-dir /repo/_build -j8 --timeout 900",
               "source_commits": [], "add_only": True},
     "engines": [{"name": "check", "path": "/verif/check", "serves_properties": sorted(CLAIMED),
                  "kind_free_text": "Python static-analysis driver over clang-14 LLVM IR and object files of /repo's working tree (engine/: irload, absint, flow, irdiff; props/: one module per property)"}],
     "checks": checks,
     "not_applicable": na,
     "notes": "Technique family: static analysis only (see DESIGN.md). Exit 2 = analysis broken, never a verdict. known_findings.txt lists fixed/known findings."}
json.dump(m, open(os.path.join(HERE, 'MANIFEST.json'), 'w'), indent=1)
print('MANIFEST.json: %d claimed, %d not applicable' % (len(checks), len(na)))
