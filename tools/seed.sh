#!/bin/bash
# tools/seed.sh <name> <worktree> <props...>
# confirms a seeded change (suite green with it; demo fails with it / passes without) and runs the named checks on it.
set -u
name=$1; wt=$2; shift 2
out=/verif/seeded/$name
mkdir -p $out
cp $wt/seed_out/patch.diff $out/patch.diff
for f in $wt/seed_out/demo.c $wt/seed_out/demo.cpp $wt/seed_out/*.sh $wt/seed_out/notes.md; do [ -f "$f" ] && cp "$f" $out/; done
log=$out/confirm.log; : > $log
echo "== suite with the change" >> $log
(cd $wt && cmake -G Ninja -S . -B _build -DBUILD_TESTS=ON -DCMAKE_BUILD_TYPE=RelWithDebInfo >/dev/null 2>&1 && cmake --build _build 2>&1 | tail -1 && ctest --test-dir _build -j16 --timeout 900 2>&1 | tail -3) >> $log 2>&1
rm -rf $wt/_build
echo "== checks against the changed tree" >> $log
for p in "$@"; do
  r=$(cd /verif && VERIF_REPO=$wt timeout 3000 ./check $p --no-evidence 2>&1 | grep -v '^VIOLATION' | tail -4 | cut -c1-400)
  echo "--- $p" >> $log; echo "$r" >> $log
done
tail -30 $log
