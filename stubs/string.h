#ifndef VERIF_STUB_STRING_H
#define VERIF_STUB_STRING_H
#include <stddef.h>
void *memset(void *s, int c, size_t n);
void *memcpy(void *d, const void *s, size_t n);
void *memmove(void *d, const void *s, size_t n);
int memcmp(const void *a, const void *b, size_t n);
size_t strlen(const char *s);
#endif
