#ifndef VERIF_STUB_INTTYPES_H
#define VERIF_STUB_INTTYPES_H
#include <stdint.h>
#define PRId64 "lld"
#define PRIu64 "llu"
#define PRIx64 "llx"
#endif
