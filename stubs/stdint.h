/* Minimal ILP32 <stdint.h> for analysis only (never linked or run).
 * Mirrors newlib on arm-none-eabi: the "fast" types are int-sized. */
#ifndef VERIF_STUB_STDINT_H
#define VERIF_STUB_STDINT_H
typedef __INT8_TYPE__ int8_t;
typedef __INT16_TYPE__ int16_t;
typedef __INT32_TYPE__ int32_t;
typedef __INT64_TYPE__ int64_t;
typedef __UINT8_TYPE__ uint8_t;
typedef __UINT16_TYPE__ uint16_t;
typedef __UINT32_TYPE__ uint32_t;
typedef __UINT64_TYPE__ uint64_t;
typedef int int_fast8_t;
typedef int int_fast16_t;
typedef int int_fast32_t;
typedef int64_t int_fast64_t;
typedef unsigned int uint_fast8_t;
typedef unsigned int uint_fast16_t;
typedef unsigned int uint_fast32_t;
typedef uint64_t uint_fast64_t;
typedef __INTPTR_TYPE__ intptr_t;
typedef __UINTPTR_TYPE__ uintptr_t;
typedef int64_t intmax_t;
typedef uint64_t uintmax_t;
#define INT8_MIN (-128)
#define INT8_MAX 127
#define UINT8_MAX 255
#define INT16_MIN (-32767-1)
#define INT16_MAX 32767
#define UINT16_MAX 65535
#define INT32_MIN (-2147483647-1)
#define INT32_MAX 2147483647
#define UINT32_MAX 4294967295U
#define INT64_MIN (-9223372036854775807LL-1)
#define INT64_MAX 9223372036854775807LL
#define UINT64_MAX 18446744073709551615ULL
#define SIZE_MAX __SIZE_MAX__
#endif
