#ifndef VERIF_STUB_STDIO_H
#define VERIF_STUB_STDIO_H
#include <stddef.h>
int printf(const char *fmt, ...);
int snprintf(char *s, size_t n, const char *fmt, ...);
int putchar(int c);
int puts(const char *s);
#endif
