#include <stdio.h>
#include "binson_parser.h"
#define SHOW(call) do { int r_ = (call); printf("%-28s -> %d   (type %d, depth %zu, err %d, used %zu)\n", #call, r_, (int)binson_parser_get_type(&p), binson_parser_get_depth(&p), (int)p.error_flags, p.buffer_used); } while (0)
int main(void){
    /* {"a":[[]], "b":1}  */
    uint8_t doc[] = {0x40, 0x14,0x01,'a', 0x42, 0x42,0x43, 0x43, 0x14,0x01,'b', 0x10,0x01, 0x41};
    BINSON_PARSER_DEF(p);
    SHOW(binson_parser_init(&p, doc, sizeof doc));
    SHOW(binson_parser_verify(&p));
    SHOW(binson_parser_go_into_object(&p));
    SHOW(binson_parser_next(&p));
    SHOW(binson_parser_go_into_array(&p));
    SHOW(binson_parser_next(&p));
    SHOW(binson_parser_leave_array(&p));
    SHOW(binson_parser_next(&p));
    SHOW(binson_parser_leave_object(&p));
    printf("---- same, but leaving the object directly\n");
    SHOW(binson_parser_init(&p, doc, sizeof doc));
    SHOW(binson_parser_go_into_object(&p));
    SHOW(binson_parser_next(&p));
    SHOW(binson_parser_go_into_array(&p));
    SHOW(binson_parser_next(&p));
    SHOW(binson_parser_leave_array(&p));
    SHOW(binson_parser_leave_object(&p));
    return 0;
}
