#include <stdio.h>
#include <string.h>
#include "binson_parser.h"
int main(void){
    /* {"a":{},"b":{}} and {"a":{},"b":1} */
    uint8_t d1[] = {0x40, 0x14,0x01,'a', 0x40,0x41, 0x14,0x01,'b', 0x40,0x41, 0x41};
    uint8_t d2[] = {0x40, 0x14,0x01,'a', 0x40,0x41, 0x14,0x01,'b', 0x10,0x01, 0x41};
    uint8_t *docs[] = {d1, d2}; size_t sz[] = {sizeof d1, sizeof d2};
    const char *want[] = {"{\"a\":{},\"b\":{}}", "{\"a\":{},\"b\":1}"};
    int bad = 0;
    for (int i = 0; i < 2; i++) {
        BINSON_PARSER_DEF(p);
        char text[64]; size_t n = sizeof text;
        binson_parser_init(&p, docs[i], sz[i]);
        bool ok = binson_parser_to_string(&p, text, &n, false);
        printf("to_string -> %d  text=%s  expected=%s\n", ok, text, want[i]);
        if (strcmp(text, want[i]) != 0) bad = 1;
    }
    return bad;
}
