"""externals: models of the few libc functions the library may call."""
import re

from .lin import Aff
from .absval import Int, Ptr, Null, Fn, Top, NULL
from .common import AnalysisBroken

INT_MAX = (1 << 31) - 1


def parse_format(fmt):
    """-> list of items: ('lit', n) | ('conv', flags, width, prec, length, spec); width/prec may be '*' or int or None"""
    out = []
    i = 0
    lit = 0
    n = len(fmt)
    while i < n:
        ch = fmt[i]
        if ch != '%':
            lit += 1
            i += 1
            continue
        if i + 1 < n and fmt[i + 1] == '%':
            lit += 1
            i += 2
            continue
        if lit:
            out.append(('lit', lit))
            lit = 0
        m = re.match(r'%([-+ #0]*)(\*|[0-9]+)?(?:\.(\*|[0-9]+))?(hh|h|ll|l|j|z|t|L)?([diouxXeEfFgGaAcspn])', fmt[i:])
        if not m:
            raise AnalysisBroken('cannot parse format string %r' % fmt)
        flags, width, prec, length, spec = m.groups()
        width = '*' if width == '*' else (int(width) if width else None)
        prec = '*' if prec == '*' else (int(prec) if prec is not None else None)
        out.append(('conv', flags, width, prec, length or '', spec))
        i += m.end()
    if lit:
        out.append(('lit', lit))
    return out


class Externals:
    def __init__(self, interp):
        self.I = interp
        self.ops = interp.ops
        self.mem = interp.mem
        self.mod = interp.mod

    def call(self, st, name, args, ins):
        if name.startswith('llvm.memset.'):
            self.mem.memset(st, args[0], args[1], args[2], ins)
            return [(st, None)]
        if name.startswith('llvm.memmove.') or name.startswith('llvm.memcpy.'):
            self.mem.memmove(st, args[0], args[1], args[2], ins)
            return [(st, None)]
        if name in ('llvm.dbg.value', 'llvm.dbg.declare'):
            return [(st, None)]
        if name == 'memset':
            self.mem.memset(st, args[0], args[1], args[2], ins)
            return [(st, args[0])]
        if name in ('memmove', 'memcpy'):
            self.mem.memmove(st, args[0], args[1], args[2], ins)
            return [(st, args[0])]
        if name == 'memcmp':
            if st.store.const_of(args[2].a) == 0:
                # memcmp(p, q, 0) touches no byte (assumption recorded by the contracts: also when p or q is NULL)
                self.ops.oblige(st, 'MEM-R', True, ins, 'memcmp of 0 bytes')
            else:
                self.mem.check(st, 'R', args[0], args[2].a, ins, 'memcmp first operand')
                self.mem.check(st, 'R', args[1], args[2].a, ins, 'memcmp second operand')
            r = st.fresh_int('ext:memcmp', 32)
            st.event(('memcmp', args[0], args[1], args[2], r))
            return [(st, r)]
        if name == 'strlen':
            return self.strlen(st, args[0], ins)
        if name == 'printf':
            self.printf_like(st, args[0], args[1:], ins, None, None)
            return [(st, st.fresh_int('ext:printf', 32, 0, INT_MAX))]
        if name == 'snprintf':
            r = self.printf_like(st, args[2], args[3:], ins, args[0], args[1])
            return [(st, r)]
        if name in ('putchar', 'puts'):
            if name == 'puts':
                self.cstring_read(st, args[0], ins)
            return [(st, st.fresh_int('ext:' + name, 32, 0, INT_MAX))]
        self.ops.oblige(st, 'EXTERN', False, ins, 'call to unmodelled external %s' % name)
        return [(st, self.mem.unknown(st, ins.ty, 'ext:' + name) if ins.ty != ('void',) else None)]

    # ---- strings ------------------------------------------------------------------------------
    def strlen(self, st, p, ins):
        if isinstance(p, Ptr):
            r = self.mem.region(st, p.region)
            if r.kind == 'cstr':
                # region length = strlen + 1 by contract
                ok = st.store.entails_ge0(p.off) and st.store.entails_ge0(r.length.sub(1).sub(p.off))
                self.ops.oblige(st, 'MEM-R', ok, ins, 'strlen inside NUL-terminated region %s' % r.name)
                c0 = st.store.const_of(p.off)
                if ok and c0 == 0:
                    w = self.mod.ptrsize * 8
                    return [(st, Int(w, r.length.sub(1)))]
                return [(st, st.fresh_int('ext:strlen', self.mod.ptrsize * 8))]
            if r.content == 'const' and r.elem is not None:
                c0 = st.store.const_of(p.off)
                if c0 is not None and 0 in r.elem[c0:]:
                    self.ops.oblige(st, 'MEM-R', True, ins, 'strlen of constant string')
                    return [(st, Int(self.mod.ptrsize * 8, Aff(r.elem[c0:].index(0))))]
        self.ops.oblige(st, 'MEM-R', False, ins, 'strlen of %r: no NUL terminator known inside the region' % (p,))
        return [(st, st.fresh_int('ext:strlen', self.mod.ptrsize * 8))]

    def cstring_read(self, st, p, ins):
        """%s without precision: must be a constant string or a NUL-terminated caller string; -> (minlen, maxlen)"""
        if isinstance(p, Ptr):
            r = self.mem.region(st, p.region)
            c0 = st.store.const_of(p.off)
            if r.content == 'const' and r.elem is not None and c0 is not None and 0 in r.elem[c0:]:
                n = r.elem[c0:].index(0)
                self.ops.oblige(st, 'MEM-R', True, ins, '%s of constant string')
                return n, n
            if r.kind == 'cstr' and c0 == 0:
                self.ops.oblige(st, 'MEM-R', True, ins, '%s of NUL-terminated caller string')
                return 0, None
        self.ops.oblige(st, 'MEM-R', False, ins, '%%s argument %r is not known to be NUL-terminated' % (p,))
        return 0, None

    def const_string(self, st, p):
        if isinstance(p, Ptr):
            r = self.mem.region(st, p.region)
            c0 = st.store.const_of(p.off)
            if r.content == 'const' and r.elem is not None and c0 is not None and 0 in r.elem[c0:]:
                return r.elem[c0:r.elem.index(0, c0)].decode('latin-1')
        return None

    # ---- printf family -----------------------------------------------------------------------------
    def printf_like(self, st, fmtp, va, ins, dst, size):
        """checks reads of the variadic arguments; for snprintf also the write extent.
        returns the Int result (snprintf) or None"""
        fmt = self.const_string(st, fmtp)
        S = st.store
        if fmt is None:
            self.ops.oblige(st, 'FORMAT', False, ins, 'format string is not a compile-time constant')
            return st.fresh_int('ext:snprintf', 32, 0, INT_MAX)
        items = parse_format(fmt)
        minlen = 0
        maxlen = 0     # None = unbounded
        ai = 0
        trace = []

        def nextarg():
            nonlocal ai
            if ai >= len(va):
                self.ops.oblige(st, 'FORMAT', False, ins, 'too few arguments for format %r' % fmt)
                return None
            a = va[ai]
            ai += 1
            return a
        for it in items:
            if it[0] == 'lit':
                minlen += it[1]
                if maxlen is not None:
                    maxlen += it[1]
                continue
            _, flags, width, prec, length, spec = it
            wv = None
            if width == '*':
                wa = nextarg()
                wv = S.const_of(wa.a) if isinstance(wa, Int) else None
                if wv is None:
                    wv = 'unknown'
            elif width is not None:
                wv = width
            pv = None
            pa = None
            if prec == '*':
                pa = nextarg()
            elif prec is not None:
                pv = prec
            arg = nextarg()
            lo = 0
            hi = None
            if spec == 's':
                if pa is not None or pv is not None:
                    # reads at most `precision` bytes
                    if pa is not None:
                        ok_prec = isinstance(pa, Int) and S.bounds(pa.a)[1] <= INT_MAX
                        self.ops.oblige(st, 'UB-TRUNC', ok_prec, ins,
                                        'int precision of %%.*s is non-negative (size_t -> int conversion preserves the length)')
                        plen = pa.a if ok_prec else None
                    else:
                        plen = Aff(pv)
                    if plen is not None:
                        pc = S.const_of(plen)
                        if pc == 0 and isinstance(arg, Null):
                            self.ops.oblige(st, 'MEM-R', True, ins, '%.*s with precision 0 and NULL pointer reads nothing')
                        else:
                            self.mem.check(st, 'R', arg, plen, ins, '%%.*s reads up to precision bytes of %r' % (arg,))
                        hi = S.bounds(plen)[1]
                    else:
                        self.ops.oblige(st, 'MEM-R', False, ins, '%.*s with unknown/negative precision reads to a NUL byte')
                    lo = 0
                else:
                    lo, hi = self.cstring_read(st, arg, ins)
            elif spec in 'di':
                bits = 64 if length in ('l', 'll', 'j', 'z', 't') and (length != 'l' or self.mod.ptrsize == 8) else 32
                if length == 'll':
                    bits = 64
                lo, hi = 1, (20 if bits == 64 else 11)
            elif spec in 'uoxX':
                bits = 64 if length in ('ll', 'j') or (length in ('l', 'z', 't') and self.mod.ptrsize == 8) else 32
                lo = 1
                hi = {('x', 32): 8, ('x', 64): 16, ('X', 32): 8, ('X', 64): 16, ('u', 32): 10, ('u', 64): 20,
                      ('o', 32): 11, ('o', 64): 22}[(spec, bits)]
                if isinstance(arg, Int):
                    b = S.bounds(arg.a)[1]
                    if spec in 'xX':
                        hi = max(1, (b.bit_length() + 3) // 4)
                    elif spec == 'u':
                        hi = len(str(b))
            elif spec in 'fFeEgGaA':
                lo, hi = 1, None
                if spec in 'fF':
                    lo = 3 + (6 if pv is None else pv) if (pv is None or pv > 0) else 1
            elif spec == 'c':
                lo = hi = 1
            elif spec == 'p':
                lo, hi = 1, 20
            else:
                self.ops.oblige(st, 'FORMAT', False, ins, 'conversion %%%s not modelled' % spec)
            if isinstance(wv, int):
                lo = max(lo, wv)
                if hi is not None:
                    hi = max(hi, wv)
            elif wv == 'unknown':
                hi = None
            if isinstance(pv, int) and spec in 'diouxX':
                lo = max(lo, pv)
                if hi is not None:
                    hi = max(hi, pv)
            minlen += lo
            if maxlen is not None:
                maxlen = None if hi is None else maxlen + hi
            trace.append((spec, arg))
        self.I.hooks.log.append(('printf', ins, fmt, [t[1] for t in trace], st.top.fn.name))
        if getattr(self.I.hooks, 'emit_events', True):
            try:
                from props.c14 import describe
                st.event(('emit', fmt, tuple(describe(st, a) for a in va)))
            except ImportError:
                pass
        if dst is None:
            return None
        # snprintf(dst, size, ...): writes min(size, len+1) bytes at dst when size > 0
        if maxlen is not None and maxlen > INT_MAX:
            maxlen = INT_MAX
        r = st.fresh_int('ext:snprintf', 32, minlen, INT_MAX if maxlen is None else maxlen)
        szc = S.const_of(size.a) if isinstance(size, Int) else None
        if szc == 0:
            self.ops.oblige(st, 'MEM-W', True, ins, 'snprintf with size 0 writes nothing')
        else:
            # extent = min(size, maxlen+1) <= size ; it is enough to show the smaller of the two fits
            ok = False
            what = 'snprintf writes min(n, len+1) bytes at %r' % (dst,)
            if isinstance(dst, Ptr) and dst.region in st.regions:
                self.I.hooks.on_store(st, st.regions[dst.region], dst.off, None, None, ins)
            if isinstance(dst, Ptr) and isinstance(size, Int):
                okb, reg = self.mem.in_bounds(st, dst, size.a)
                ok = okb
                if not ok and maxlen is not None:
                    okb, reg = self.mem.in_bounds(st, dst, Aff(maxlen + 1))
                    ok = okb
                if not ok:
                    # size may be 0 on this path without being a constant: split is done by callers; try entailment size==0
                    ok = S.entails_eq0(size.a)
                if ok and reg is not None:
                    self.ops.oblige(st, 'REGION-W', not reg.readonly, ins, 'snprintf destination region %s writable' % reg.name)
            self.ops.oblige(st, 'MEM-W', ok, ins, what, self.mem.describe(st, dst, size.a if isinstance(size, Int) else '?'))
        return r
