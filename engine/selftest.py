"""selftest: apply each recorded source edit to a scratch copy of /repo (outside /repo and /verif), run the
named checks against it and compare with the expectation (violation naming the instance / silence)."""
import json
import os
import shutil
import subprocess
import sys
import tempfile
import time

HERE = os.path.dirname(os.path.dirname(os.path.abspath(__file__)))
REPO = os.environ.get('VERIF_REPO', '/repo')


def load_specs():
    sys.path.insert(0, os.path.join(HERE, 'selftest'))
    import mutants
    return mutants.MUTANTS


def run_one(spec, props=None, keep=False):
    d = tempfile.mkdtemp(prefix='binson-selftest-')
    try:
        for sub in ('src', 'include'):
            shutil.copytree(os.path.join(REPO, sub), os.path.join(d, sub))
        for (f, old, new) in spec['edits']:
            p = os.path.join(d, f)
            s = open(p).read()
            if old not in s:
                return [(spec['name'], '-', 'STALE', 'edit anchor not found in %s' % f)]
            open(p, 'w').write(s.replace(old, new, 1))
        if spec.get('sed'):
            import re
            fp = os.path.join(d, spec.get('sed_file', 'src/binson_parser.c'))
            txt = open(fp).read()
            for (pat, repl) in spec['sed']:
                txt, nsub = re.subn(pat, repl, txt)
                if nsub == 0:
                    return [(spec['name'], '-', 'STALE', 'pattern %r not found' % pat)]
            open(fp, 'w').write(txt)
        out = []
        for prop, expect in spec['expect'].items():
            if props and prop not in props:
                continue
            env = dict(os.environ, VERIF_REPO=d, VERIF_SELFTEST='1')
            env.setdefault('VERIF_TASK_BUDGET', '300')
            t = time.time()
            p = subprocess.run([os.path.join(HERE, 'check'), prop, '--tier', 'quick', '--no-evidence'], env=env, cwd=HERE,
                               stdout=subprocess.PIPE, stderr=subprocess.STDOUT, text=True)
            txt = p.stdout
            if expect is None:
                ok = p.returncode == 0
                why = 'exit %d (expected silence)' % p.returncode
            else:
                ok = p.returncode == 1 and expect in txt
                why = 'exit %d, %s' % (p.returncode, 'names %r' % expect if expect in txt else 'does not name %r' % expect)
            if not ok:
                why += ' | ' + ' / '.join(l for l in txt.strip().split('\n')[-3:])[:300]
            out.append((spec['name'], prop, 'OK' if ok else 'FAIL', why + ' (%.0fs)' % (time.time() - t)))
        return out
    finally:
        if not keep:
            shutil.rmtree(d, ignore_errors=True)


def main(argv):
    specs = load_specs()
    names = [a for a in argv if not a.startswith('-') and not a.startswith('C')]
    props = [a for a in argv if a.startswith('C')]
    bad = 0
    for spec in specs:
        if names and spec['name'] not in names:
            continue
        if props and not any(p in spec['expect'] for p in props):
            continue
        for (n, p, st, why) in run_one(spec, props or None):
            print('%-5s %-34s %-4s %s' % (st, n, p, why))
            if st != 'OK':
                bad += 1
    print('selftest: %d failures' % bad)
    return 1 if bad else 0
