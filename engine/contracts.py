"""contracts: entry states for every public function of the C library
(DESIGN.md 3.4) and the invariant checks applied at exits / back edges."""
from .lin import Aff
from .absval import Int, Ptr, Null, Fn, Top, Zero, NULL, ZERO, Region, State
from .absint_cf import Hooks, Interp
from .common import AnalysisBroken, need

INT32_MAX = (1 << 31) - 1

# parameter kinds: P parser, W writer, BUF input buffer, LEN its length, CSTR NUL-terminated caller string,
# SPAN caller bytes (followed by SLEN), OUTBBUF bbuf out-parameter, TEXT text buffer, SIZEP size_t* in/out,
# TYPE binson_type, BOOL, I64, F64, WBUF writer buffer, WLEN its capacity
API = {
    'binson_parser_init_object': ('P', 'BUF', 'LEN'),
    'binson_parser_init_array': ('P', 'BUF', 'LEN'),
    'binson_parser_reset': ('P',),
    'binson_parser_verify': ('P',),
    'binson_parser_get_depth': ('P',),
    'binson_parser_next': ('P',),
    'binson_parser_next_ensure': ('P', 'TYPE'),
    'binson_parser_get_type': ('P',),
    'binson_parser_field': ('P', 'CSTR'),
    'binson_parser_field_with_length': ('P', 'SPAN', 'SLEN'),
    'binson_parser_field_ensure': ('P', 'CSTR', 'TYPE'),
    'binson_parser_field_ensure_with_length': ('P', 'SPAN', 'SLEN', 'TYPE'),
    'binson_parser_go_into_object': ('P',),
    'binson_parser_leave_object': ('P',),
    'binson_parser_go_into_array': ('P',),
    'binson_parser_leave_array': ('P',),
    'binson_parser_get_name': ('P',),
    'binson_parser_get_string_bbuf': ('P',),
    'binson_parser_get_raw': ('P', 'OUTBBUF'),
    'binson_parser_get_integer': ('P',),
    'binson_parser_get_boolean': ('P',),
    'binson_parser_get_double': ('P',),
    'binson_parser_get_bytes_bbuf': ('P',),
    'binson_parser_string_equals': ('P', 'CSTR'),
    'binson_parser_print': ('P',),
    'binson_parser_to_string': ('P', 'TEXT', 'SIZEP', 'BOOL'),
    'binson_writer_init': ('W', 'WBUF', 'WLEN'),
    'binson_writer_reset': ('W',),
    'binson_writer_get_counter': ('W',),
    'binson_write_string': ('W', 'CSTR'),
    'binson_write_string_with_len': ('W', 'SPAN', 'SLEN'),
    'binson_write_object_begin': ('W',),
    'binson_write_object_end': ('W',),
    'binson_write_array_begin': ('W',),
    'binson_write_array_end': ('W',),
    'binson_write_boolean': ('W', 'BOOL'),
    'binson_write_integer': ('W', 'I64'),
    'binson_write_double': ('W', 'F64'),
    'binson_write_bytes': ('W', 'SPAN', 'SLEN'),
    'binson_parser_to_writer': ('P', 'W'),
    'binson_write_raw': ('W', 'SPAN', 'SLEN'),
    'binson_writer_verify': ('W',),
}
PARSER_INIT = ('binson_parser_init_object', 'binson_parser_init_array')


class Layout:
    """field offsets by name, from debug info (so the contract follows the struct, not frozen numbers)"""

    def __init__(self, mod):
        self.mod = mod
        self.parser = self._fields('binson_parser_s')
        self.state = self._fields('binson_state_s')
        self.writer = self._fields('binson_writer_s')
        self.bbuf = self._fields('bbuf_e')
        need(self.parser and self.state and self.bbuf, 'debug info for binson_parser_s/binson_state_s/bbuf_e not found')
        for f in ('type', 'depth', 'max_depth', 'buffer_size', 'buffer_used', 'buffer', 'error_flags', 'state',
                  'current_state', 'cb', 'cb_context'):
            need(f in self.parser, 'binson_parser_s has no field %s' % f)
        for f in ('current_value', 'current_name', 'current_type', 'flags', 'array_depth'):
            need(f in self.state, 'binson_state_s has no field %s' % f)
        self.psize = mod.sizeof(('named', 'struct.binson_parser_s'))
        self.ssize = mod.sizeof(('named', 'struct.binson_state_s'))
        self.ptr = mod.ptrsize
        self.szw = mod.ptrsize * 8
        self.objmax = (1 << (self.szw - 1)) - 1   # no C object is larger than PTRDIFF_MAX
        if self.writer:
            self.wsize = mod.sizeof(('named', 'struct.binson_writer_s'))

    def _fields(self, name):
        f = self.mod.di_struct_fields(name)
        if not f:
            return None
        return {n: (o, s) for (n, o, s) in f}


class LibHooks(Hooks):
    """hooks that implement the cell invariant J of the state array"""

    def __init__(self):
        Hooks.__init__(self)
        self.lay = None
        self.interp = None
        self.compact_fns = set()

    def compact(self, fn):
        return fn.name in self.compact_fns

    def on_store(self, st, r, off, size, val, ins):
        if r.name == 'STATE' and size is not None:
            d = st.tags.get(('dirty', 'STATE'), frozenset())
            st.tags[('dirty', 'STATE')] = d | {(off.key(), size)}
            if size <= 2:
                # remember, per enclosing loop, the first value a small (flag-like) cell had since that loop's head
                k = (off.key(), size)
                old = None
                for tk in [t for t in st.tags if isinstance(t, tuple) and t and t[0] == 'loophead']:
                    fk = ('fw', tk[1], tk[2])
                    fw = st.tags.get(fk, ())
                    if not any(x[0] == k for x in fw):
                        if old is None:
                            c = (st.cells('STATE') or {}).get(k)
                            old = 0
                            if c is not None and isinstance(c[2], Int):
                                cc = st.store.const_of(c[2].a)
                                if cc is not None:
                                    old = cc
                                else:
                                    sg = c[2].a.single()
                                    if sg and sg[1] == 1 and c[2].a.c == 0:
                                        old = st.kb.get(sg[0], (0, 0))[1]
                        # (cell, bits known to be set in the value the cell had at the loop head)
                        st.tags[fk] = fw + ((k, old),)

    def on_memset(self, st, r, off, length, byte, ins):
        if r.name == 'STATE':
            S = st.store
            if isinstance(byte, Int) and S.const_of(byte.a) == 0 and S.entails_eq0(off) and \
                    S.entails_eq0(length.a.sub(r.length)):
                # the whole state array is zero: the cell invariant J holds trivially from here on
                st.tags['J'] = True
                st.tags[('dirty', 'STATE')] = frozenset()
                return
            lc = st.store.const_of(length.a)
            if lc is not None:
                d = st.tags.get(('dirty', 'STATE'), frozenset())
                st.tags[('dirty', 'STATE')] = d | {(off.key(), lc)}
            else:
                st.tags[('dirty', 'STATE')] = frozenset()

    def elem_field(self, off):
        """split a STATE offset into (element base Aff, field offset int) or None"""
        ss = self.lay.ssize
        for k in off.t.values():
            if k % ss:
                return None
        fo = off.c % ss
        return off.sub(fo), fo

    def default_cell(self, st, r, off, size, ty, havoc, ins):
        if r.name != 'STATE':
            return None
        if not st.tags.get('J'):
            return None
        if st.tags.get(('default', 'STATE')) == 'zero' and not havoc:
            return None
        ef = self.elem_field(off)
        if ef is None:
            return None
        base, fo = ef
        lay = self.lay
        no, _ = lay.state['current_name']
        vo, _ = lay.state['current_value']
        bo_size, _ = lay.bbuf['bsize']
        bo_ptr, _ = lay.bbuf['bptr']
        P = lay.ptr
        mem = self.interp.mem
        if fo in (no + bo_size, no + bo_ptr) and size == P:
            out = []
            s2 = st.copy()
            # {NULL, 0}
            w = st.wcells('STATE')
            o1, o2 = base.add(no + bo_size), base.add(no + bo_ptr)
            w[(o1.key(), P)] = (o1, P, Int(lay.szw, Aff(0)))
            w[(o2.key(), P)] = (o2, P, NULL)
            out.append((st, Int(lay.szw, Aff(0)) if fo == no + bo_size else NULL))
            bs, bp = self.jspan(s2)
            w = s2.wcells('STATE')
            w[(o1.key(), P)] = (o1, P, bs)
            w[(o2.key(), P)] = (o2, P, bp)
            out.append((s2, bs if fo == no + bo_size else bp))
            return out
        if fo in (vo + bo_size, vo + bo_ptr) and size == P:
            to, tsz = lay.state['current_type']
            tcell = (st.cells('STATE') or {}).get((base.add(to).key(), tsz))
            tv = st.store.const_of(tcell[2].a) if tcell is not None and isinstance(tcell[2], Int) else None
            if tv in (self.T_STRING, self.T_BYTES):
                bs, bp = self.jspan(st)
                w = st.wcells('STATE')
                o1, o2 = base.add(vo + bo_size), base.add(vo + bo_ptr)
                w[(o1.key(), P)] = (o1, P, bs)
                w[(o2.key(), P)] = (o2, P, bp)
                return [(st, bs if fo == vo + bo_size else bp)]
        return None

    T_STRING = 8
    T_BYTES = 9

    def jspan(self, st):
        lay = self.lay
        bufr = st.regions['BUF']
        o = st.fresh('J:off', lay.szw)
        n = st.fresh('J:len', lay.szw, 0, INT32_MAX)
        st.store.assume_ge0(bufr.length.sub(Aff.sym(o)).sub(Aff.sym(n)))
        return Int(lay.szw, Aff.sym(n)), Ptr('BUF', Aff.sym(o))

    def is_span(self, st, bs, bp):
        """is (bsize, bptr) NULL/0 or a span inside BUF with bsize <= INT32_MAX?"""
        S = st.store
        if isinstance(bs, Zero) and isinstance(bp, Zero):
            return True
        if isinstance(bs, Zero):
            bs = Int(self.lay.szw, Aff(0))
        if isinstance(bp, Zero):
            bp = NULL
        if not isinstance(bs, Int):
            return False
        if isinstance(bp, Null):
            return S.entails_eq0(bs.a)
        if isinstance(bp, Ptr) and bp.region == 'BUF':
            bufr = st.regions['BUF']
            return S.entails_ge0(bp.off) and S.entails_ge0(bufr.length.sub(bp.off).sub(bs.a)) and \
                S.entails_ge0(bs.a.neg().add(INT32_MAX))
        return False

    def check_J(self, st, where):
        """-> list of violation strings for dirty STATE elements"""
        bad = []
        dirty = st.tags.get(('dirty', 'STATE'))
        if not dirty:
            return bad
        lay = self.lay
        cells = st.cells('STATE') or {}
        P = lay.ptr
        no, _ = lay.state['current_name']
        vo, _ = lay.state['current_value']
        to, tsz = lay.state['current_type']
        bo_size, _ = lay.bbuf['bsize']
        bo_ptr, _ = lay.bbuf['bptr']
        bases = {}
        for (ok_, sz) in dirty:
            off = Aff(ok_[0], dict(ok_[1]))
            ef = self.elem_field(off)
            if ef is None:
                bad.append('store into STATE at unaligned offset %r' % off)
                continue
            base, fo = ef
            bases.setdefault(base.key(), (base, set()))[1].add((fo, sz))
        mem = self.interp.mem

        def get(base, fo, sz):
            o = base.add(fo)
            c = cells.get((o.key(), sz))
            if c is not None:
                return c[2]
            for (o2, s2, v2) in cells.values():
                if isinstance(v2, Zero):
                    d = o.sub(o2)
                    if d.is_const() and d.c >= 0 and d.c + sz <= s2:
                        return ZERO
            return None
        for bk, (base, fields) in bases.items():
            touched_name = any(no <= fo < no + 2 * P for (fo, sz) in fields) or any(sz >= lay.ssize for (fo, sz) in fields)
            touched_val = any(vo <= fo < vo + 2 * P for (fo, sz) in fields) or any(sz >= lay.ssize for (fo, sz) in fields)
            touched_type = any(fo == to for (fo, sz) in fields)
            if touched_name:
                bs, bp = get(base, no + bo_size, P), get(base, no + bo_ptr, P)
                if bs is None or bp is None or not self.is_span(st, bs, bp):
                    bad.append('current_name of state[%r] is not NULL/0 or a span inside the buffer: bsize=%r bptr=%r' % (
                        base, bs, bp))
            if touched_val or touched_type:
                tv = get(base, to, tsz)
                tconst = None
                if isinstance(tv, Zero):
                    tconst = 0
                elif isinstance(tv, Int):
                    tconst = st.store.const_of(tv.a)
                if tconst is not None and tconst not in (self.T_STRING, self.T_BYTES):
                    continue
                bs, bp = get(base, vo + bo_size, P), get(base, vo + bo_ptr, P)
                if bs is None or bp is None or not self.is_span(st, bs, bp) or isinstance(bp, Null) and tconst is not None:
                    if bs is not None and bp is not None and self.is_span(st, bs, bp):
                        continue
                    bad.append('current_value of state[%r] may be exposed as string/bytes (type=%r) but is not a span '
                               'inside the buffer: bsize=%r bptr=%r' % (base, tv, bs, bp))
        return bad

    def at_backedge(self, st, fn, head):
        if st.tags.get('J') and st.regions.get('STATE') is not None:
            bad = self.check_J(st, 'back edge of %s' % fn.name)
            ins = fn.blocks[head].instrs[0]
            for b in bad:
                self.obligation(st, 'INV-J', False, ins, 'cell invariant J at loop back edge: ' + b, '')
            if not bad:
                self.obligation(st, 'INV-J', True, ins, 'cell invariant J at loop back edge', '')
            st.tags[('dirty', 'STATE')] = frozenset()

    def before_join(self, st, fn, why):
        if st.tags.get('J') and st.regions.get('STATE') is not None:
            ec = self.error_const(st)
            if ec == 0:
                bad = self.check_J(st, why)
                ins = fn.entry.instrs[0]
                for b in bad:
                    self.obligation(st, 'INV-J', False, ins, 'cell invariant J at %s: %s' % (why, b), '')
                if not bad:
                    self.obligation(st, 'INV-J', True, ins, 'cell invariant J at %s' % why, '')
                st.tags[('dirty', 'STATE')] = frozenset()

    def error_const(self, st):
        o, sz = self.lay.parser['error_flags']
        c = (st.cells('P') or {}).get(((o, ()), sz))
        if c is None or not isinstance(c[2], Int):
            return None
        return st.store.const_of(c[2].a)

    def on_forget(self, st, r, off, size, val, ins):
        if r.name == 'STATE' and st.tags.get('J'):
            # a store may alias a tracked cell: the cell is forgotten, so the invariant must hold for
            # everything written so far (checked now), after which the default "unknown under J" is sound
            bad = self.check_J(st, 'may-alias store')
            for b in bad:
                self.obligation(st, 'INV-J', False, ins, 'cell invariant J before a may-alias store forgets [%r,+%d): %s' % (off, size, b), '')
            if not bad:
                self.obligation(st, 'INV-J', True, ins, 'cell invariant J re-checked before a may-alias store', '')


class Contracts:
    def __init__(self, mod, hooks=None):
        self.mod = mod
        self.hooks = hooks or LibHooks()
        self.lay = Layout(mod)
        self.hooks.lay = self.lay
        self.I = Interp(mod, self.hooks)
        self.hooks.interp = self.I
        # enum constants from debug info
        self.enums = self._enums()
        self.hooks.T_STRING = self.enums.get('BINSON_TYPE_STRING', 8)
        self.hooks.T_BYTES = self.enums.get('BINSON_TYPE_BYTES', 9)

    def _enums(self):
        out = {}
        for mid, (kind, d) in self.mod.md.items():
            if kind == 'DIEnumerator':
                try:
                    out[d['name'].strip('"')] = int(d['value'])
                except (KeyError, ValueError):
                    pass
        return out

    def public_functions(self):
        return [n for n, f in self.mod.functions.items() if f.linkage == 'external']

    # ---- building blocks -------------------------------------------------------------------------
    def field_val(self, st, kind, name, w, lo=None, hi=None):
        return st.fresh_int('entry:%s.%s' % (kind, name), w, lo, hi)

    def setcell(self, st, region, off, size, v):
        o = Aff(off)
        st.wcells(region)[(o.key(), size)] = (o, size, v)

    def parser_regions(self, st, bs_aff, md_aff, bufname='BUF'):
        lay = self.lay
        st.add_region(Region('P', 'obj', Aff(lay.psize)))
        r = Region('STATE', 'array', md_aff.mul(lay.ssize))
        r.elem = lay.ssize
        st.add_region(r)
        st.add_region(Region('BUF', 'buf', bs_aff, readonly=True, content='bytes'))
        st.mem['P'] = {}
        st.mem['STATE'] = {}
        st.owned |= {'P', 'STATE'}

    def parser_disjuncts(self, fname):
        """entry states for a non-init parser function: list of (label, state)"""
        lay = self.lay
        out = []
        for label in ('err', 'ok-d0', 'ok-d1'):
            st = self.I.new_state()
            w8 = lay.parser['depth'][1] * 8
            md = st.fresh('cfg:max_depth', w8, 1, 255 if w8 == 8 else lay.objmax // lay.ssize)
            bs = st.fresh('cfg:buffer_size', lay.szw, 0 if label == 'err' else 2, lay.objmax)
            self.parser_regions(st, Aff.sym(bs), Aff.sym(md))
            F = lay.parser

            def put(name, v):
                self.setcell(st, 'P', F[name][0], F[name][1], v)
            put('type', st.fresh_int('cfg:type', F['type'][1] * 8, 1, 2))
            put('max_depth', Int(w8, Aff.sym(md)))
            put('buffer_size', Int(lay.szw, Aff.sym(bs)))
            put('buffer', Ptr('BUF', Aff(0)))
            put('state', Ptr('STATE', Aff(0)))
            put('cb', NULL)
            st.tags[('default', 'STATE')] = 'unknown'
            st.tags[('default', 'P')] = 'unknown'
            if label == 'err':
                put('depth', self.field_val(st, 'P', 'depth', w8))
                put('buffer_used', self.field_val(st, 'P', 'buffer_used', lay.szw))
                put('error_flags', self.field_val(st, 'P', 'error_flags', 32, 1))
                put('current_state', Top('ptr', 'entry:P.current_state (unconstrained while an error is latched)'))
                put('cb_context', Top('ptr', 'entry:P.cb_context'))
                st.tags['J'] = False
                st.tags[('havoc', 'STATE')] = 'all'
            else:
                used = st.fresh('entry:P.buffer_used', lay.szw)
                st.store.assume_ge0(Aff.sym(bs).sub(Aff.sym(used)))
                put('buffer_used', Int(lay.szw, Aff.sym(used)))
                put('error_flags', Int(32, Aff(0)))
                put('cb_context', Top('ptr', 'entry:P.cb_context'))
                if label == 'ok-d0':
                    put('depth', Int(w8, Aff(0)))
                    put('current_state', Ptr('STATE', Aff(0)))
                else:
                    d = st.fresh('entry:P.depth', w8, 1)
                    st.store.assume_ge0(Aff.sym(md).sub(Aff.sym(d)))
                    put('depth', Int(w8, Aff.sym(d)))
                    put('current_state', Ptr('STATE', Aff.sym(d).sub(1).mul(lay.ssize)))
                st.tags['J'] = True
            st.tags['entry'] = label
            for pre in getattr(self, 'presets', ()):
                pre(self, st, label)
            out.append((label, st))
        return out

    def current_level_offset(self, st, label, field):
        """offset (Aff) of `field` of the state entry current_state points to, for an ok-* entry disjunct"""
        F = self.lay.parser
        c = (st.cells('P') or {}).get(((F['current_state'][0], ()), F['current_state'][1]))
        if c is None or not isinstance(c[2], Ptr):
            return None
        return c[2].off.add(self.lay.state[field][0])

    def preset_state_cell(self, st, label, field, value, size=None):
        off = self.current_level_offset(st, label, field)
        if off is None:
            return False
        sz = size or self.lay.state[field][1]
        st.wcells('STATE')[(off.key(), sz)] = (off, sz, value)
        return True

    def parser_init_state(self):
        """arbitrary prior contents of struct and state array; state/max_depth as the macros set them"""
        lay = self.lay
        st = self.I.new_state()
        w8 = lay.parser['depth'][1] * 8
        md = st.fresh('cfg:max_depth', w8, 1, 255 if w8 == 8 else lay.objmax // lay.ssize)
        bs = st.fresh('arg:buffer_size', lay.szw, 0, lay.objmax)
        self.parser_regions(st, Aff.sym(bs), Aff.sym(md))
        F = lay.parser
        for name, (off, size) in F.items():
            if name in ('buffer', 'current_state', 'cb', 'cb_context'):
                v = Top('ptr', 'entry:P.%s (garbage)' % name)
            elif name == 'state':
                v = Ptr('STATE', Aff(0))
            elif name == 'max_depth':
                v = Int(w8, Aff.sym(md))
            else:
                v = self.field_val(st, 'P', name, size * 8)
            self.setcell(st, 'P', off, size, v)
        st.tags[('default', 'STATE')] = 'unknown'
        st.tags[('havoc', 'STATE')] = 'all'
        st.tags['J'] = False
        st.tags['entry'] = 'init'
        return st, bs

    def writer_state(self, st, label):
        lay = self.lay
        need(lay.writer, 'debug info for binson_writer_s not found')
        F = lay.writer
        cap = st.fresh('cfg:w.buffer_size', lay.szw, 0, lay.objmax)
        st.add_region(Region('W', 'obj', Aff(lay.wsize)))
        st.add_region(Region('WBUF', 'sink', Aff.sym(cap), content='none'))
        st.mem['W'] = {}
        st.owned.add('W')
        self.setcell(st, 'W', F['buffer_size'][0], F['buffer_size'][1], Int(lay.szw, Aff.sym(cap)))
        self.setcell(st, 'W', F['buffer_used'][0], F['buffer_used'][1], self.field_val(st, 'W', 'buffer_used', lay.szw))
        self.setcell(st, 'W', F['buffer'][0], F['buffer'][1], Ptr('WBUF', Aff(0)))
        if label == 'werr':
            ev = self.field_val(st, 'W', 'error_flags', 32, 1)
        else:
            ev = Int(32, Aff(0))
        self.setcell(st, 'W', F['error_flags'][0], F['error_flags'][1], ev)
        st.tags['wentry'] = label

    # ---- entries -------------------------------------------------------------------------------------
    def entries(self, fname):
        """-> list of (label, state, args) for public function fname"""
        need(fname in API, 'public function %s has no contract row (engine/contracts.py API table)' % fname)
        kinds = API[fname]
        fn = self.mod.functions[fname]
        need(len(fn.params) == len(kinds), 'contract row of %s does not match its %d parameters' % (fname, len(fn.params)))
        lay = self.lay
        bases = []
        if 'P' in kinds:
            if fname in PARSER_INIT:
                st, bs = self.parser_init_state()
                bases.append(('init', st, {'bs': bs}))
            else:
                for label, st in self.parser_disjuncts(fname):
                    bases.append((label, st, {}))
        else:
            bases.append(('', self.I.new_state(), {}))
        out = []
        for label, st, extra in bases:
            variants = [(label, st)]
            if 'W' in kinds and fname != 'binson_writer_init':
                nv = []
                for (lb, s) in variants:
                    s2 = s.copy()
                    self.writer_state(s, 'wok')
                    self.writer_state(s2, 'werr')
                    nv.append(((lb + '+wok').strip('+'), s))
                    nv.append(((lb + '+werr').strip('+'), s2))
                variants = nv
            for (lb, s) in variants:
                args = []
                for i, k in enumerate(kinds):
                    pty = fn.params[i][0]
                    if k == 'P':
                        args.append(Ptr('P', Aff(0)))
                    elif k == 'W':
                        if fname == 'binson_writer_init':
                            s.add_region(Region('W', 'obj', Aff(lay.wsize)))
                            s.mem['W'] = {}
                            s.owned.add('W')
                            s.tags[('default', 'W')] = 'unknown'
                        args.append(Ptr('W', Aff(0)))
                    elif k == 'BUF':
                        args.append(Ptr('BUF', Aff(0)))
                    elif k == 'LEN':
                        args.append(Int(lay.szw, Aff.sym(extra['bs'])))
                    elif k == 'WBUF':
                        cap = s.fresh('arg:capacity', lay.szw, 0, lay.objmax)
                        s.add_region(Region('WBUF', 'sink', Aff.sym(cap), content='none'))
                        s.tags['wcap'] = cap
                        args.append(Ptr('WBUF', Aff(0)))
                    elif k == 'WLEN':
                        args.append(Int(lay.szw, Aff.sym(s.tags['wcap'])))
                    elif k == 'CSTR':
                        n = s.fresh('arg:strlen', lay.szw, 0, lay.objmax - 1)
                        r = Region('USTR', 'cstr', Aff.sym(n).add(1), readonly=True, content='bytes')
                        s.add_region(r)
                        args.append(Ptr('USTR', Aff(0)))
                    elif k == 'SPAN':
                        n = s.fresh('arg:length', lay.szw, 0, lay.objmax)
                        s.add_region(Region('USPAN', 'span', Aff.sym(n), readonly=True, content='bytes'))
                        s.tags['spanlen'] = n
                        args.append(Ptr('USPAN', Aff(0)))
                    elif k == 'SLEN':
                        args.append(Int(lay.szw, Aff.sym(s.tags['spanlen'])))
                    elif k == 'OUTBBUF':
                        s.add_region(Region('OUT', 'obj', Aff(2 * lay.ptr)))
                        s.mem['OUT'] = {}
                        s.owned.add('OUT')
                        s.tags[('default', 'OUT')] = 'unknown'
                        args.append(Ptr('OUT', Aff(0)))
                    elif k == 'TYPE':
                        args.append(s.fresh_int('arg:type', 32))
                    elif k == 'BOOL':
                        args.append(s.fresh_int('arg:bool', 1))
                    elif k == 'I64':
                        args.append(s.fresh_int('arg:value', 64))
                    elif k == 'F64':
                        args.append(Top('double', 'arg:value'))
                    elif k == 'TEXT':
                        args.append(None)    # filled below together with SIZEP
                    elif k == 'SIZEP':
                        args.append(None)
                    else:
                        raise AnalysisBroken('contract kind %s' % k)
                if 'TEXT' in kinds:
                    ti, si = kinds.index('TEXT'), kinds.index('SIZEP')
                    # variant A: pbuf valid for *buf_size bytes; variant B: pbuf NULL (size query)
                    sB = s.copy()
                    for (sv, nullbuf, lb2) in ((s, False, lb + '+text'), (sB, True, lb + '+nulltext')):
                        a2 = list(args)
                        cap = sv.fresh('arg:*buf_size', lay.szw, 0, lay.objmax)
                        sv.add_region(Region('SIZEP', 'obj', Aff(lay.ptr)))
                        sv.mem['SIZEP'] = {}
                        sv.owned.add('SIZEP')
                        self.setcell(sv, 'SIZEP', 0, lay.ptr, Int(lay.szw, Aff.sym(cap)))
                        sv.add_region(Region('TEXT', 'sink', Aff.sym(cap), content='none'))
                        sv.tags['textcap'] = cap
                        a2[ti] = NULL if nullbuf else Ptr('TEXT', Aff(0))
                        a2[si] = Ptr('SIZEP', Aff(0))
                        out.append((lb2, sv, a2))
                else:
                    out.append((lb, s, args))
        return out

    def run(self, fname, only=None):
        """analyse fname from each entry disjunct -> list of (label, [(state, ret)])"""
        fn = self.mod.functions.get(fname)
        need(fn is not None, 'anchor function %s not found' % fname)
        res = []
        for (label, st, args) in self.entries(fname):
            if only is not None and not only(label):
                continue
            st.tags['entry_label'] = label
            st.tags['entry_fn'] = fname
            st.decide((fname, fn.line, 'entry disjunct: %s' % label))
            st.frames = [self._root_frame()]
            outs = self.split_bool_returns(self.I.call_function(st, fn, args, None))
            res.append((label, outs))
        return res

    def split_bool_returns(self, outs):
        """a boolean returned as an undecided comparison is split into its true and false disjuncts"""
        res = []
        for (st, rv) in outs:
            if isinstance(rv, Int) and rv.w == 1 and st.store.const_of(rv.a) is None:
                s2 = st.copy()
                for s in self.I.ops.assume(st, rv, True):
                    res.append((s, Int(1, Aff(1))))
                for s in self.I.ops.assume(s2, rv, False):
                    res.append((s, Int(1, Aff(0))))
            else:
                res.append((st, rv))
        return res

    def _root_frame(self):
        from .absval import Frame

        class _F:
            name = '<root>'
        return Frame(_F, None, 0)


# ------------------------------------------------------------------------------------------------
# exit obligations (INV-EXIT): A0 always, A1 and J where error_flags == NONE

def _cell(st, region, off, size):
    c = (st.cells(region) or {}).get(((off, ()), size))
    return c[2] if c is not None else None


def check_exit(C, st, fname, ret):
    """-> list of (ok, kind, what) for one exit disjunct of public parser function fname"""
    lay = C.lay
    F = lay.parser
    S = st.store
    out = []

    def fld(name):
        return _cell(st, 'P', F[name][0], F[name][1])
    if 'P' not in st.regions or 'STATE' not in st.regions:
        return out
    bufr = st.regions['BUF']
    sreg = st.regions['STATE']
    # ---- A0
    v = fld('state')
    out.append((isinstance(v, Ptr) and v.region == 'STATE' and S.entails_eq0(v.off), 'INV-A0', 'parser->state still points to the state array'))
    v = fld('max_depth')
    out.append((isinstance(v, Int) and S.entails_eq0(v.a.mul(lay.ssize).sub(sreg.length)) and S.entails_ge0(v.a.sub(1)),
                'INV-A0', 'parser->max_depth equals the number of state entries (>= 1)'))
    v = fld('buffer')
    out.append((isinstance(v, Ptr) and v.region == 'BUF' and S.entails_eq0(v.off), 'INV-A0', 'parser->buffer points to the input buffer'))
    v = fld('buffer_size')
    out.append((isinstance(v, Int) and S.entails_eq0(v.a.sub(bufr.length)), 'INV-A0', 'parser->buffer_size equals the buffer length'))
    v = fld('type')
    out.append((isinstance(v, Int) and S.entails_ge0(v.a.sub(1)) and S.entails_ge0(v.a.neg().add(2)), 'INV-A0', 'parser->type is object or array'))
    v = fld('cb')
    out.append((isinstance(v, Null), 'INV-A0', 'parser->cb is NULL outside print/to_string'))
    # ---- A1 / J only while no error is latched
    ev = fld('error_flags')
    if not isinstance(ev, Int):
        out.append((False, 'INV-A1', 'parser->error_flags is not an integer value at exit'))
        return out
    if S.entails_ge0(ev.a.sub(1)):
        return out
    if not S.entails_eq0(ev.a):
        st = st.copy()
        S = st.store
        if not S.assume_eq0(ev.a):
            return out
    bs = fld('buffer_size')
    used = fld('buffer_used')
    d = fld('depth')
    md = fld('max_depth')
    cs = fld('current_state')
    ok = isinstance(bs, Int) and S.entails_ge0(bs.a.sub(2))
    out.append((ok, 'INV-A1', 'buffer_size >= 2 while no error is latched'))
    ok = isinstance(used, Int) and isinstance(bs, Int) and S.entails_ge0(bs.a.sub(used.a))
    out.append((ok, 'INV-A1', 'buffer_used <= buffer_size at exit (%r vs %r)' % (used, bs)))
    ok = isinstance(d, Int) and isinstance(md, Int) and S.entails_ge0(md.a.sub(d.a))
    out.append((ok, 'INV-A1', 'depth <= max_depth at exit (%r vs %r)' % (d, md)))
    ok = False
    if isinstance(cs, Ptr) and cs.region == 'STATE' and isinstance(d, Int):
        if S.entails_eq0(d.a):
            ok = S.entails_eq0(cs.off)
        elif S.entails_ge0(d.a.sub(1)):
            ok = S.entails_eq0(cs.off.sub(d.a.sub(1).mul(lay.ssize)))
        else:
            s0 = st.copy()
            s1 = st.copy()
            ok = True
            if s0.store.assume_eq0(d.a):
                ok = ok and s0.store.entails_eq0(cs.off)
            if s1.store.assume_ge0(d.a.sub(1)):
                ok = ok and s1.store.entails_eq0(cs.off.sub(d.a.sub(1).mul(lay.ssize)))
    out.append((ok, 'INV-A1', 'current_state == &state[depth > 0 ? depth-1 : 0] at exit (%r, depth %r)' % (cs, d)))
    if st.tags.get('J') or True:
        bad = C.hooks.check_J(st, 'exit of %s' % fname)
        if not st.tags.get('J') and not bad:
            # J was not assumed on entry (error disjunct / init): it must have been established by a full wipe
            dz = st.tags.get(('default', 'STATE')) == 'zero'
            out.append((dz, 'INV-J', 'state array fully initialised when the error flag is cleared'))
        for b in bad:
            out.append((False, 'INV-J', 'cell invariant J at exit: ' + b))
        if not bad:
            out.append((True, 'INV-J', 'cell invariant J at exit'))
    return out


def check_span_out(C, st, fname, ret):
    """SPAN obligations on values handed back to the caller"""
    lay = C.lay
    S = st.store
    out = []
    P = lay.ptr
    if 'OUT' in st.regions and isinstance(ret, Int) and S.const_of(ret.a) == 1:
        bs = _cell(st, 'OUT', lay.bbuf['bsize'][0], P)
        bp = _cell(st, 'OUT', lay.bbuf['bptr'][0], P)
        bufr = st.regions['BUF']
        ok = isinstance(bs, Int) and isinstance(bp, Ptr) and bp.region == 'BUF' and S.entails_ge0(bp.off) and \
            S.entails_ge0(bufr.length.sub(bp.off).sub(bs.a))
        out.append((ok, 'SPAN', 'raw span handed back by %s lies inside the buffer (bptr=%r bsize=%r)' % (fname, bp, bs)))
    if isinstance(ret, Ptr) and ret.region == 'STATE':
        bs = (st.cells('STATE') or {}).get((ret.off.add(lay.bbuf['bsize'][0]).key(), P))
        bp = (st.cells('STATE') or {}).get((ret.off.add(lay.bbuf['bptr'][0]).key(), P))
        if bs is not None and bp is not None:
            ok = C.hooks.is_span(st, bs[2], bp[2])
            out.append((ok, 'SPAN', 'bbuf returned by %s is NULL/0 or a span inside the buffer (bptr=%r bsize=%r)' % (fname, bp[2], bs[2])))
        else:
            out.append((bool(st.tags.get('J')), 'SPAN', 'bbuf returned by %s is covered by the cell invariant J' % fname))
    elif isinstance(ret, Ptr) and ret.region not in ('STATE',):
        out.append((False, 'SPAN', '%s returns a pointer into region %s' % (fname, ret.region)))
    return out
