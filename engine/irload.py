"""irload: a reader for the textual LLVM-14 IR that clang emits for /repo.

Gives the rest of the engines a resolved-program view without executing
anything: functions, blocks, typed instructions, CFG, dominators, natural
loops, call graph, struct layouts with field names (from debug info) and the
source line of every instruction.

Only the constructs that clang-14 emits for the three units are understood.
Anything else raises IRError, which the driver turns into exit 2 ("analysis
broken"), never into a pass.
"""
import re
from collections import defaultdict


class IRError(Exception):
    pass


# --------------------------------------------------------------------------
# tokenizer

_TOK = re.compile(r'''
    (?P<ws>\s+)
  | (?P<cstr>c"(?:[^"\\]|\\[0-9A-Fa-f]{2}|\\\\)*")
  | (?P<local>%"[^"]*"|%[-a-zA-Z$._0-9]+)
  | (?P<glob>@"[^"]*"|@[-a-zA-Z$._0-9]+)
  | (?P<comdat>\$"[^"]*"|\$[-a-zA-Z$._0-9]+)
  | (?P<md>![-a-zA-Z$._0-9]*)
  | (?P<attr>\#[0-9]+)
  | (?P<str>"[^"]*")
  | (?P<hex>0x[KLMHR]?[0-9A-Fa-f]+)
  | (?P<num>-?[0-9]+(?:\.[0-9]+)?(?:e[+-]?[0-9]+)?)
  | (?P<dots>\.\.\.)
  | (?P<id>[a-zA-Z_][a-zA-Z0-9_.]*)
  | (?P<p>[()\[\]{}<>,=*:|])
''', re.X)


def tokenize(s):
    out = []
    pos = 0
    n = len(s)
    while pos < n:
        m = _TOK.match(s, pos)
        if not m:
            raise IRError('cannot tokenize: %r' % s[pos:pos + 40])
        pos = m.end()
        k = m.lastgroup
        if k == 'ws':
            continue
        out.append((k, m.group()))
    return out


# --------------------------------------------------------------------------
# types: tuples
#  ('int', n) ('ptr', T) ('array', n, T) ('struct', (T..), packed) ('named', name)
#  ('double',) ('float',) ('void',) ('func', ret, (params..), vararg) ('label',)
#  ('metadata',) ('vector', n, T) ('x86_fp80',) ('token',)

VOID = ('void',)
I1 = ('int', 1)
I8 = ('int', 8)
I32 = ('int', 32)
I64 = ('int', 64)


def tstr(t):
    k = t[0]
    if k == 'int':
        return 'i%d' % t[1]
    if k == 'ptr':
        return tstr(t[1]) + '*'
    if k == 'array':
        return '[%d x %s]' % (t[1], tstr(t[2]))
    if k == 'struct':
        return '{' + ', '.join(tstr(x) for x in t[1]) + '}'
    if k == 'named':
        return '%' + t[1]
    if k == 'func':
        return '%s (%s)' % (tstr(t[1]), ', '.join(tstr(x) for x in t[2]))
    return k


class Cursor:
    def __init__(self, toks, text=''):
        self.t = toks
        self.i = 0
        self.text = text

    def peek(self, k=0):
        j = self.i + k
        return self.t[j] if j < len(self.t) else ('eof', '')

    def next(self):
        x = self.peek()
        self.i += 1
        return x

    def accept(self, val):
        if self.peek()[1] == val:
            self.i += 1
            return True
        return False

    def expect(self, val):
        x = self.next()
        if x[1] != val:
            raise IRError('expected %r got %r in: %s' % (val, x[1], self.text))
        return x

    def done(self):
        return self.i >= len(self.t)


_INT_T = re.compile(r'^i([0-9]+)$')


def parse_type(c):
    k, v = c.next()
    if k == 'id':
        m = _INT_T.match(v)
        if m:
            t = ('int', int(m.group(1)))
        elif v in ('void', 'double', 'float', 'label', 'metadata', 'x86_fp80', 'token', 'half', 'fp128'):
            t = (v,)
        elif v == 'ptr':
            t = ('ptr', I8)
        elif v == 'opaque':
            t = ('opaque',)
        else:
            raise IRError('unknown type token %r in %s' % (v, c.text))
    elif k == 'local':
        name = v[1:]
        if name.startswith('"'):
            name = name[1:-1]
        t = ('named', name)
    elif v == '[':
        n = int(c.next()[1])
        c.expect('x')
        et = parse_type(c)
        c.expect(']')
        t = ('array', n, et)
    elif v == '{':
        t = _parse_struct_body(c, False)
    elif v == '<':
        if c.peek()[1] == '{':
            c.next()
            t = _parse_struct_body(c, True)
            c.expect('>')
        else:
            n = int(c.next()[1])
            c.expect('x')
            et = parse_type(c)
            c.expect('>')
            t = ('vector', n, et)
    else:
        raise IRError('bad type start %r in %s' % (v, c.text))
    # suffixes
    while True:
        pk = c.peek()
        if pk[1] == '*':
            c.next()
            t = ('ptr', t)
        elif pk[1] == '(':
            # function type
            c.next()
            params = []
            vararg = False
            while not c.accept(')'):
                if c.peek()[0] == 'dots':
                    c.next()
                    vararg = True
                else:
                    params.append(parse_type(c))
                c.accept(',')
            t = ('func', t, tuple(params), vararg)
        elif pk[1] == 'addrspace':
            c.next(); c.expect('('); c.next(); c.expect(')')
        else:
            break
    return t


def _parse_struct_body(c, packed):
    elems = []
    while not c.accept('}'):
        elems.append(parse_type(c))
        c.accept(',')
    return ('struct', tuple(elems), packed)


# --------------------------------------------------------------------------
# values
#  ('local', name) ('global', name) ('int', v) ('null',) ('undef',) ('zero',)
#  ('float', text) ('cexpr', op, [ (type, val) ...], extra) ('cstr', bytes)
#  ('agg', [(type,val)...]) ('md', text)

def _unq(v):
    n = v[1:]
    if n.startswith('"'):
        n = n[1:-1]
    return n


def decode_cstr(tok):
    s = tok[2:-1]
    out = bytearray()
    i = 0
    while i < len(s):
        ch = s[i]
        if ch == '\\':
            if s[i + 1] == '\\':
                out.append(0x5c)
                i += 2
            else:
                out.append(int(s[i + 1:i + 3], 16))
                i += 3
        else:
            out.append(ord(ch))
            i += 1
    return bytes(out)


_CEXPR_OPS = {'getelementptr', 'bitcast', 'inttoptr', 'ptrtoint', 'trunc', 'zext', 'sext',
              'add', 'sub', 'mul', 'and', 'or', 'xor', 'shl', 'lshr', 'ashr', 'select', 'icmp',
              'addrspacecast'}


def parse_value(c, ty):
    k, v = c.next()
    if k == 'local':
        return ('local', _unq(v))
    if k == 'glob':
        return ('global', _unq(v))
    if k == 'num':
        if ty[0] == 'int':
            return ('int', int(v) & ((1 << ty[1]) - 1))
        return ('float', v)
    if k == 'hex':
        return ('float', v)
    if k == 'cstr':
        return ('cstr', decode_cstr(v))
    if k == 'md':
        # metadata operand: swallow a balanced (...) if present
        txt = v
        if c.peek()[1] == '(':
            depth = 0
            while True:
                t = c.next()
                txt += t[1]
                if t[1] == '(':
                    depth += 1
                elif t[1] == ')':
                    depth -= 1
                    if depth == 0:
                        break
        return ('md', txt)
    if k == 'id':
        if v == 'true':
            return ('int', 1)
        if v == 'false':
            return ('int', 0)
        if v == 'null':
            return ('null',)
        if v in ('undef', 'poison'):
            return ('undef',)
        if v == 'zeroinitializer':
            return ('zero',)
        if v == 'none':
            return ('undef',)
        if v in _CEXPR_OPS:
            flags = []
            while c.peek()[1] in ('inbounds', 'nuw', 'nsw', 'exact', 'inrange'):
                flags.append(c.next()[1])
            c.expect('(')
            ops = []
            extra = {'flags': flags}
            if v == 'getelementptr':
                extra['srcty'] = parse_type(c)
                c.expect(',')
            if v == 'icmp':
                extra['pred'] = c.next()[1]
            while True:
                if c.peek()[1] == ')':
                    break
                t = parse_type(c)
                while c.peek()[1] in ('inrange',):
                    c.next()
                val = parse_value(c, t)
                ops.append((t, val))
                if c.accept('to'):
                    extra['to'] = parse_type(c)
                if not c.accept(','):
                    break
            c.expect(')')
            return ('cexpr', v, ops, extra)
        if v == 'blockaddress':
            c.expect('(')
            while not c.accept(')'):
                c.next()
            return ('undef',)
    if v == '{' or v == '[' or v == '<':
        close = {'{': '}', '[': ']', '<': '>'}[v]
        if v == '<' and c.peek()[1] == '{':
            c.next()
            elems = _parse_agg(c, '}')
            c.expect('>')
            return ('agg', elems)
        return ('agg', _parse_agg(c, close))
    raise IRError('bad value %r (type %s) in %s' % (v, tstr(ty), c.text))


def _parse_agg(c, close):
    elems = []
    while not c.accept(close):
        t = parse_type(c)
        elems.append((t, parse_value(c, t)))
        c.accept(',')
    return elems


# --------------------------------------------------------------------------

class Instr:
    __slots__ = ('res', 'op', 'ty', 'ops', 'attrs', 'dbg', 'line', 'col', 'text', 'block', 'idx', 'fn', 'scope_fn')

    def __init__(self):
        self.res = None
        self.op = None
        self.ty = VOID
        self.ops = []        # list of (type, value)
        self.attrs = {}
        self.dbg = None
        self.line = 0
        self.col = 0
        self.text = ''
        self.block = None
        self.idx = 0
        self.fn = None
        self.scope_fn = None

    def loc(self):
        f = getattr(self.fn, 'file', None) or (self.fn.module.srcfile if self.fn is not None else '?')
        if f.startswith('/repo/'):
            f = f[len('/repo/'):]
        import os
        rp = os.environ.get('VERIF_REPO')
        if rp and f.startswith(rp.rstrip('/') + '/'):
            f = f[len(rp.rstrip('/')) + 1:]
        return '%s:%d' % (f, self.line)

    def __repr__(self):
        return '<%s %s @%s>' % (self.res or '', self.op, self.line)


class Block:
    def __init__(self, name):
        self.name = name
        self.instrs = []
        self.succs = []
        self.preds = []
        self.fn = None

    def term(self):
        return self.instrs[-1]


class Function:
    def __init__(self):
        self.name = None
        self.ret = VOID
        self.params = []   # list of (type, name)
        self.vararg = False
        self.blocks = {}
        self.order = []    # block names in textual order
        self.linkage = 'external'
        self.module = None
        self.dbg = None
        self.line = 0
        self.defs = {}     # ssa name -> Instr
        self._dom = None
        self._rpo = None
        self._loops = None
        self._pdom = None
        self.file = None

    @property
    def entry(self):
        return self.blocks[self.order[0]]

    def instructions(self):
        for bn in self.order:
            for ins in self.blocks[bn].instrs:
                yield ins

    # ---- CFG analyses -------------------------------------------------
    def rpo(self):
        if self._rpo is None:
            seen = set()
            post = []
            stack = [(self.order[0], iter(self.blocks[self.order[0]].succs))]
            seen.add(self.order[0])
            while stack:
                b, it = stack[-1]
                adv = False
                for s in it:
                    if s not in seen:
                        seen.add(s)
                        stack.append((s, iter(self.blocks[s].succs)))
                        adv = True
                        break
                if not adv:
                    post.append(b)
                    stack.pop()
            self._rpo = post[::-1]
        return self._rpo

    def dominators(self):
        """idom map (Cooper-Harvey-Kennedy)."""
        if self._dom is None:
            rpo = self.rpo()
            idx = {b: i for i, b in enumerate(rpo)}
            idom = {rpo[0]: rpo[0]}
            changed = True
            while changed:
                changed = False
                for b in rpo[1:]:
                    preds = [p for p in self.blocks[b].preds if p in idom]
                    if not preds:
                        continue
                    new = preds[0]
                    for p in preds[1:]:
                        a, c = p, new
                        while a != c:
                            while idx[a] > idx[c]:
                                a = idom[a]
                            while idx[c] > idx[a]:
                                c = idom[c]
                        new = a
                    if idom.get(b) != new:
                        idom[b] = new
                        changed = True
            self._dom = idom
        return self._dom

    def dominates(self, a, b):
        """block a dominates block b"""
        idom = self.dominators()
        if b not in idom:
            return False
        while True:
            if a == b:
                return True
            nb = idom[b]
            if nb == b:
                return False
            b = nb

    def instr_dominates(self, i1, i2):
        if i1.block is i2.block:
            return i1.idx < i2.idx
        return self.dominates(i1.block.name, i2.block.name)

    def loops(self):
        """natural loops: list of dict(head, body(set), backedges[(src)])"""
        if self._loops is None:
            loops = {}
            reach = set(self.rpo())
            for bn in reach:
                for s in self.blocks[bn].succs:
                    if self.dominates(s, bn):
                        body = loops.setdefault(s, {'head': s, 'body': {s}, 'back': []})
                        body['back'].append(bn)
                        stack = [bn]
                        while stack:
                            x = stack.pop()
                            if x in body['body']:
                                continue
                            body['body'].add(x)
                            stack.extend(p for p in self.blocks[x].preds if p in reach)
            # irreducibility check: every retreating edge must be a back edge
            idx = {b: i for i, b in enumerate(self.rpo())}
            for bn in reach:
                for s in self.blocks[bn].succs:
                    if idx[s] <= idx[bn] and not self.dominates(s, bn):
                        raise IRError('irreducible control flow in %s (%s->%s)' % (self.name, bn, s))
            self._loops = list(loops.values())
        return self._loops


class Module:
    def __init__(self):
        self.srcfile = '?'
        self.datalayout = ''
        self.triple = ''
        self.structs = {}
        self.globals = {}    # name -> dict(ty, init, constant, linkage)
        self.functions = {}  # defined
        self.declares = {}   # name -> (ret, params, vararg)
        self.md = {}         # id -> (kind, dict) or ('tuple', [ids])
        self.ptrsize = 8
        self.i64align = 8
        self._layout = {}

    # ---- layout ---------------------------------------------------------
    def resolve(self, t):
        while t[0] == 'named':
            if t[1] not in self.structs:
                raise IRError('unknown named type %s' % t[1])
            t = self.structs[t[1]]
        return t

    def sizeof(self, t):
        return self._sa(t)[0]

    def alignof(self, t):
        return self._sa(t)[1]

    def _sa(self, t):
        k = t[0]
        if k == 'int':
            n = (t[1] + 7) // 8
            a = 1
            while a < n:
                a *= 2
            if a > 8:
                a = 8
            if t[1] == 64:
                a = self.i64align
            return (a if n <= a else ((n + a - 1) // a) * a, a) if t[1] not in (1, 8, 16, 32, 64) else (a, a)
        if k == 'ptr':
            return (self.ptrsize, self.ptrsize)
        if k == 'double':
            return (8, self.i64align)
        if k == 'float':
            return (4, 4)
        if k == 'x86_fp80':
            return (16, 16)
        if k == 'array':
            s, a = self._sa(t[2])
            return (s * t[1], a)
        if k == 'named':
            return self._sa(self.resolve(t))
        if k == 'struct':
            return self.struct_layout(t)[1:]
        if k == 'opaque':
            raise IRError('sizeof opaque')
        raise IRError('sizeof %s' % (t,))

    def struct_layout(self, t):
        """-> (offsets tuple, size, align)"""
        t = self.resolve(t)
        if t in self._layout:
            return self._layout[t]
        off = 0
        offs = []
        maxa = 1
        for e in t[1]:
            s, a = self._sa(e)
            if t[2]:
                a = 1
            if off % a:
                off += a - off % a
            offs.append(off)
            off += s
            maxa = max(maxa, a)
        if off % maxa:
            off += maxa - off % maxa
        r = (tuple(offs), off, maxa)
        self._layout[t] = r
        return r

    # ---- debug-info helpers --------------------------------------------
    def di_struct_fields(self, name):
        """fields of the DICompositeType called `name`: list of (field, byte offset, byte size)"""
        for mid, (kind, d) in self.md.items():
            if kind == 'DICompositeType' and d.get('name') == '"%s"' % name and 'elements' in d:
                el = self.md.get(d['elements'])
                if not el or el[0] != 'tuple':
                    continue
                out = []
                for e in el[1]:
                    mk, md = self.md[e]
                    if mk == 'DIDerivedType' and md.get('tag') == 'DW_TAG_member':
                        out.append((md['name'].strip('"'), int(md.get('offset', '0')) // 8, int(md.get('size', '0')) // 8))
                return out
        return None

    def callgraph(self):
        """direct edges + address-taken functions (targets of indirect calls)"""
        edges = defaultdict(set)
        indirect_sites = []
        addr_taken = set()
        for fn in self.functions.values():
            for ins in fn.instructions():
                if ins.op in ('call', 'invoke'):
                    cal = ins.attrs['callee']
                    if cal[0] == 'global':
                        edges[fn.name].add(cal[1])
                    else:
                        indirect_sites.append(ins)
                    for (t, v) in ins.ops:
                        if v[0] == 'global' and v[1] in self.functions:
                            addr_taken.add(v[1])
                else:
                    for (t, v) in ins.ops:
                        if v[0] == 'global' and v[1] in self.functions:
                            addr_taken.add(v[1])
        return edges, indirect_sites, addr_taken


# --------------------------------------------------------------------------
# module parser

_MD_LINE = re.compile(r'^(![0-9]+) = (distinct )?(.*)$')
_MD_NODE = re.compile(r'^!([A-Za-z]+)\((.*)\)$', re.S)


def _split_top(s):
    """split 'a: b, c: d(e, f)' at top-level commas"""
    out = []
    depth = 0
    cur = []
    inq = False
    for ch in s:
        if inq:
            cur.append(ch)
            if ch == '"':
                inq = False
            continue
        if ch == '"':
            inq = True
            cur.append(ch)
        elif ch in '([{':
            depth += 1
            cur.append(ch)
        elif ch in ')]}':
            depth -= 1
            cur.append(ch)
        elif ch == ',' and depth == 0:
            out.append(''.join(cur).strip())
            cur = []
        else:
            cur.append(ch)
    if cur:
        x = ''.join(cur).strip()
        if x:
            out.append(x)
    return out


def _parse_md(rhs):
    rhs = rhs.strip()
    if rhs.startswith('!{'):
        items = [x.strip() for x in _split_top(rhs[2:-1])]
        return ('tuple', items)
    m = _MD_NODE.match(rhs)
    if m:
        d = {}
        for kv in _split_top(m.group(2)):
            if ': ' in kv:
                k, v = kv.split(': ', 1)
                d[k] = v
        return (m.group(1), d)
    return ('raw', {'text': rhs})


_SIMPLE_BIN = {'add', 'sub', 'mul', 'and', 'or', 'xor', 'shl', 'lshr', 'ashr', 'udiv', 'sdiv', 'urem', 'srem',
               'fadd', 'fsub', 'fmul', 'fdiv', 'frem'}
_CASTS = {'zext', 'sext', 'trunc', 'bitcast', 'inttoptr', 'ptrtoint', 'sitofp', 'uitofp', 'fptosi', 'fptoui',
          'fpext', 'fptrunc', 'addrspacecast'}
_PARAM_ATTRS = {'noundef', 'zeroext', 'signext', 'nonnull', 'nocapture', 'readonly', 'writeonly', 'immarg',
                'noalias', 'returned', 'inreg', 'nest', 'readnone', 'nofree', 'swiftself', 'swifterror'}
_FN_PREFIX = {'dso_local', 'internal', 'private', 'linkonce_odr', 'weak_odr', 'available_externally', 'external',
              'hidden', 'protected', 'default', 'unnamed_addr', 'local_unnamed_addr', 'weak', 'linkonce', 'common',
              'fastcc', 'ccc', 'coldcc', 'dllimport', 'dllexport', 'extern_weak', 'appending'}


def _skip_param_attrs(c):
    while True:
        k, v = c.peek()
        if k == 'id' and v in _PARAM_ATTRS:
            c.next()
        elif k == 'id' and v in ('align', 'dereferenceable', 'dereferenceable_or_null'):
            c.next()
            if c.accept('('):
                c.next(); c.expect(')')
            else:
                c.next()
        elif k == 'id' and v in ('sret', 'byval', 'byref', 'inalloca', 'preallocated', 'elementtype'):
            c.next()
            if c.accept('('):
                parse_type(c); c.expect(')')
        else:
            return


def parse_module(text, srcfile=None):
    m = Module()
    lines = text.split('\n')
    i = 0
    n = len(lines)
    cur_fn = None
    cur_blk = None
    while i < n:
        line = lines[i]
        i += 1
        s = line.strip()
        if not s or s.startswith(';'):
            if s.startswith('; ModuleID'):
                pass
            continue
        if cur_fn is None:
            if s.startswith('source_filename'):
                m.srcfile = s.split('"')[1]
                continue
            if s.startswith('target datalayout'):
                m.datalayout = s.split('"')[1]
                for part in m.datalayout.split('-'):
                    if part.startswith('p:'):
                        m.ptrsize = int(part.split(':')[1]) // 8
                    if part.startswith('i64:'):
                        m.i64align = int(part.split(':')[1]) // 8
                continue
            if s.startswith('target triple'):
                m.triple = s.split('"')[1]
                continue
            if s[0] == '%' and ' = type ' in s:
                nm, rhs = s.split(' = type ', 1)
                c = Cursor(tokenize(rhs), s)
                nm = nm[1:]
                if nm.startswith('"'):
                    nm = nm[1:-1]
                m.structs[nm] = parse_type(c)
                continue
            if s[0] == '@':
                _parse_global(m, s)
                continue
            if s[0] == '$' or s.startswith('attributes ') or s.startswith('module asm'):
                continue
            if s[0] == '!':
                mm = _MD_LINE.match(s)
                if mm:
                    m.md[mm.group(1)] = _parse_md(mm.group(3))
                continue
            if s.startswith('declare '):
                _parse_fn_header(m, s, declare=True)
                continue
            if s.startswith('define '):
                cur_fn = _parse_fn_header(m, s, declare=False)
                cur_blk = None
                continue
            raise IRError('unrecognised top-level line: %s' % s)
        else:
            if s == '}':
                _finish_fn(m, cur_fn)
                cur_fn = None
                continue
            # block label
            lm = re.match(r'^("[^"]*"|[-a-zA-Z$._0-9]+):', s)
            if lm and not s.startswith('%'):
                nm = lm.group(1).strip('"')
                cur_blk = Block(nm)
                cur_blk.fn = cur_fn
                cur_fn.blocks[nm] = cur_blk
                cur_fn.order.append(nm)
                continue
            if cur_blk is None:
                # implicit entry block: named after the next unnamed value number
                nm = str(len(cur_fn.params)) if all(p[1].isdigit() for p in cur_fn.params) else 'entry'
                if cur_fn.params and not all(p[1].isdigit() for p in cur_fn.params):
                    # count unnamed params
                    nm = str(sum(1 for p in cur_fn.params if p[1].isdigit()))
                cur_blk = Block(nm)
                cur_blk.fn = cur_fn
                cur_fn.blocks[nm] = cur_blk
                cur_fn.order.append(nm)
            # multi-line switch / landingpad
            if (' switch ' in ' ' + s and s.rstrip().endswith('[')):
                while not lines[i].strip().startswith(']'):
                    s += ' ' + lines[i].strip()
                    i += 1
                s += ' ' + lines[i].strip()
                i += 1
            elif re.search(r'(^| )invoke ', s) and ' unwind label ' not in s:
                s += ' ' + lines[i].strip()
                i += 1
            elif 'landingpad' in s:
                while i < n and lines[i].strip().split(' ')[0].rstrip(',') in ('cleanup', 'catch', 'filter'):
                    s += ' ' + lines[i].strip()
                    i += 1
            if s.startswith('call void @llvm.dbg.'):
                continue
            ins = _parse_instr(m, cur_fn, s)
            ins.block = cur_blk
            ins.idx = len(cur_blk.instrs)
            ins.fn = cur_fn
            cur_blk.instrs.append(ins)
            if ins.res is not None:
                cur_fn.defs[ins.res] = ins
    if srcfile:
        m.srcfile = srcfile
    _resolve_lines(m)
    return m


def _parse_global(m, s):
    nm, rhs = s.split(' = ', 1)
    name = _unq(nm.strip())
    c = Cursor(tokenize(rhs.split(', align')[0].split(', comdat')[0].split(', section')[0].split(', !dbg')[0]), s)
    info = {'constant': False, 'linkage': 'external', 'init': None, 'ty': None, 'text': s}
    while True:
        k, v = c.peek()
        if k == 'id' and (v in _FN_PREFIX or v in ('thread_local', 'externally_initialized')):
            if v in ('internal', 'private', 'linkonce_odr', 'weak_odr', 'external', 'common', 'weak', 'appending',
                     'available_externally', 'extern_weak', 'linkonce'):
                info['linkage'] = v
            c.next()
            if v == 'thread_local' and c.accept('('):
                c.next(); c.expect(')')
        elif k == 'id' and v in ('global', 'constant'):
            info['constant'] = (v == 'constant')
            c.next()
            break
        elif k == 'id' and v in ('alias', 'ifunc'):
            info['alias'] = True
            m.globals[name] = info
            return
        else:
            raise IRError('global: %s' % s)
    info['ty'] = parse_type(c)
    if not c.done():
        try:
            info['init'] = parse_value(c, info['ty'])
        except IRError:
            info['init'] = ('unparsed',)
    m.globals[name] = info


def _parse_fn_header(m, s, declare):
    body = s[len('declare ' if declare else 'define '):]
    c = Cursor(tokenize(body), s)
    f = Function()
    f.module = m
    while True:
        k, v = c.peek()
        if k == 'id' and v in _FN_PREFIX:
            if v in ('internal', 'private', 'linkonce_odr', 'weak_odr', 'available_externally'):
                f.linkage = v
            c.next()
        elif k == 'id' and v in _PARAM_ATTRS | {'align', 'dereferenceable', 'dereferenceable_or_null'}:
            _skip_param_attrs(c)
        else:
            break
    f.ret = parse_type(c)
    k, v = c.next()
    if k != 'glob':
        raise IRError('fn header: %s' % s)
    f.name = _unq(v)
    c.expect('(')
    cnt = 0
    while not c.accept(')'):
        if c.peek()[0] == 'dots':
            c.next()
            f.vararg = True
        else:
            t = parse_type(c)
            _skip_param_attrs(c)
            if c.peek()[0] == 'local':
                pn = _unq(c.next()[1])
            else:
                pn = str(cnt)
            if pn.isdigit():
                cnt += 1
            f.params.append((t, pn))
        c.accept(',')
    # trailing attrs ... find !dbg
    toks = c.t[c.i:]
    for j, (k, v) in enumerate(toks):
        if v == '!dbg' and j + 1 < len(toks):
            f.dbg = toks[j + 1][1]
    if declare:
        m.declares[f.name] = (f.ret, [p[0] for p in f.params], f.vararg)
        return None
    m.functions[f.name] = f
    return f


def _finish_fn(m, f):
    for bn in f.order:
        b = f.blocks[bn]
        if not b.instrs:
            raise IRError('empty block %s in %s' % (bn, f.name))
        t = b.instrs[-1]
        succs = []
        for x in t.attrs.get('targets', []):
            if x not in succs:
                succs.append(x)
        b.succs = succs
    for bn in f.order:
        for s in f.blocks[bn].succs:
            if s not in f.blocks:
                raise IRError('unknown block %s in %s' % (s, f.name))
            f.blocks[s].preds.append(bn)
    if f.dbg and f.dbg in m.md:
        d = m.md[f.dbg][1]
        f.line = int(d.get('line', '0'))


def _parse_typed(c):
    t = parse_type(c)
    _skip_param_attrs(c)
    v = parse_value(c, t)
    return (t, v)


def _parse_call_tail(m, c, ins):
    # [tail] call [cc] [ret attrs] <ty> <callee>(args) [fn attrs]
    while c.peek()[0] == 'id' and (c.peek()[1] in _FN_PREFIX or c.peek()[1] in _PARAM_ATTRS or
                                   c.peek()[1] in ('tail', 'musttail', 'notail', 'nnan', 'ninf', 'nsz', 'fast')):
        c.next()
    _skip_param_attrs(c)
    rt = parse_type(c)
    fty = None
    if rt[0] == 'func':
        fty = rt
        rt = rt[1]
    elif rt[0] == 'ptr' and rt[1][0] == 'func' and c.peek()[0] in ('local', 'glob') and False:
        pass
    ins.ty = rt
    # callee
    k, v = c.peek()
    if k == 'glob':
        c.next()
        callee = ('global', _unq(v))
    elif k == 'local':
        c.next()
        callee = ('local', _unq(v))
    elif k == 'id' and v in ('bitcast', 'inttoptr'):
        ce = parse_value(c, ('ptr', I8))
        # bitcast (T @f to T2): treat as the underlying global if any
        callee = ce
        inner = ce[2][0][1] if ce[0] == 'cexpr' else None
        if inner and inner[0] == 'global':
            callee = inner
    elif k == 'id' and v == 'asm':
        raise IRError('inline asm call')
    else:
        raise IRError('call: callee %r in %s' % (v, c.text))
    ins.attrs['callee'] = callee
    ins.attrs['fty'] = fty
    c.expect('(')
    args = []
    while not c.accept(')'):
        args.append(_parse_typed(c))
        c.accept(',')
    ins.ops = args


def _parse_instr(m, f, s):
    ins = Instr()
    ins.text = s
    # strip metadata attachments at the end (", !dbg !12", ", !tbaa !3" ...)
    core = s
    mdm = re.search(r', !dbg (![0-9]+)', core)
    if mdm:
        ins.dbg = mdm.group(1)
    core = re.sub(r'(, ![a-zA-Z_.]+ ![0-9]+)+\s*$', '', core)
    toks = tokenize(core)
    c = Cursor(toks, s)
    if c.peek()[0] == 'local' and c.peek(1)[1] == '=':
        ins.res = _unq(c.next()[1])
        c.next()
    k, op = c.next()
    ins.op = op
    A = ins.attrs
    if op in _SIMPLE_BIN:
        fl = []
        while c.peek()[1] in ('nsw', 'nuw', 'exact', 'nnan', 'ninf', 'nsz', 'arcp', 'contract', 'afn', 'reassoc', 'fast'):
            fl.append(c.next()[1])
        A['flags'] = fl
        t = parse_type(c)
        a = parse_value(c, t)
        c.expect(',')
        b = parse_value(c, t)
        ins.ty = t
        ins.ops = [(t, a), (t, b)]
    elif op == 'fneg':
        t = parse_type(c)
        ins.ty = t
        ins.ops = [(t, parse_value(c, t))]
    elif op in _CASTS:
        t = parse_type(c)
        a = parse_value(c, t)
        c.expect('to')
        ins.ty = parse_type(c)
        ins.ops = [(t, a)]
    elif op in ('icmp', 'fcmp'):
        while c.peek()[1] in ('nnan', 'ninf', 'nsz', 'fast'):
            c.next()
        A['pred'] = c.next()[1]
        t = parse_type(c)
        a = parse_value(c, t)
        c.expect(',')
        b = parse_value(c, t)
        ins.ty = I1
        ins.ops = [(t, a), (t, b)]
    elif op == 'load':
        while c.peek()[1] in ('volatile', 'atomic'):
            A[c.next()[1]] = True
        ins.ty = parse_type(c)
        c.expect(',')
        ins.ops = [_parse_typed(c)]
    elif op == 'store':
        while c.peek()[1] in ('volatile', 'atomic'):
            A[c.next()[1]] = True
        v = _parse_typed(c)
        c.expect(',')
        p = _parse_typed(c)
        ins.ops = [v, p]
    elif op == 'alloca':
        c.accept('inalloca')
        t = parse_type(c)
        A['aty'] = t
        A['count'] = None
        if c.accept(','):
            if c.peek()[1] == 'align':
                pass
            else:
                A['count'] = _parse_typed(c)
        ins.ty = ('ptr', t)
    elif op == 'getelementptr':
        A['inbounds'] = c.accept('inbounds')
        A['srcty'] = parse_type(c)
        c.expect(',')
        ops = [_parse_typed(c)]
        while c.accept(','):
            ops.append(_parse_typed(c))
        ins.ops = ops
        ins.ty = _gep_result_type(m, A['srcty'], ops)
    elif op == 'phi':
        t = parse_type(c)
        ins.ty = t
        inc = []
        while True:
            c.expect('[')
            v = parse_value(c, t)
            c.expect(',')
            lb = _unq(c.next()[1])
            c.expect(']')
            inc.append((v, lb))
            if not c.accept(','):
                break
        A['incoming'] = inc
        ins.ops = [(t, v) for v, _ in inc]
    elif op == 'select':
        cond = _parse_typed(c)
        c.expect(',')
        a = _parse_typed(c)
        c.expect(',')
        b = _parse_typed(c)
        ins.ty = a[0]
        ins.ops = [cond, a, b]
    elif op == 'br':
        if c.peek()[1] == 'label':
            c.next()
            A['targets'] = [_unq(c.next()[1])]
        else:
            cond = _parse_typed(c)
            c.expect(','); c.expect('label')
            t1 = _unq(c.next()[1])
            c.expect(','); c.expect('label')
            t2 = _unq(c.next()[1])
            ins.ops = [cond]
            A['targets'] = [t1, t2]
    elif op == 'switch':
        v = _parse_typed(c)
        c.expect(','); c.expect('label')
        dflt = _unq(c.next()[1])
        c.expect('[')
        cases = []
        while not c.accept(']'):
            ct = parse_type(c)
            cv = parse_value(c, ct)
            c.expect(','); c.expect('label')
            cases.append((cv[1], _unq(c.next()[1])))
        ins.ops = [v]
        A['default'] = dflt
        A['cases'] = cases
        A['targets'] = [dflt] + [x[1] for x in cases]
    elif op == 'ret':
        t = parse_type(c)
        if t != VOID:
            ins.ops = [(t, parse_value(c, t))]
        A['targets'] = []
    elif op in ('unreachable', 'resume'):
        if op == 'resume':
            ins.ops = [_parse_typed(c)]
        A['targets'] = []
    elif op in ('call', 'tail', 'musttail', 'notail'):
        if op != 'call':
            c.expect('call')
            ins.op = 'call'
        _parse_call_tail(m, c, ins)
    elif op == 'invoke':
        _parse_call_tail(m, c, ins)
        while c.peek()[1] != 'to':
            if c.done():
                raise IRError('invoke without targets: %s' % s)
            c.next()
        c.expect('to'); c.expect('label')
        t1 = _unq(c.next()[1])
        c.expect('unwind'); c.expect('label')
        t2 = _unq(c.next()[1])
        A['targets'] = [t1, t2]
        A['normal'] = t1
        A['unwind'] = t2
    elif op == 'landingpad':
        ins.ty = parse_type(c)
    elif op == 'extractvalue':
        agg = _parse_typed(c)
        idxs = []
        while c.accept(','):
            idxs.append(int(c.next()[1]))
        A['idx'] = idxs
        ins.ops = [agg]
        t = agg[0]
        for ix in idxs:
            rt = m.resolve(t)
            t = rt[1][ix] if rt[0] == 'struct' else rt[2]
        ins.ty = t
    elif op == 'insertvalue':
        agg = _parse_typed(c)
        c.expect(',')
        v = _parse_typed(c)
        ins.ops = [agg, v]
        ins.ty = agg[0]
    else:
        raise IRError('unmodelled IR opcode %r in %s: %s' % (op, f.name, s))
    return ins


def _gep_result_type(m, srcty, ops):
    t = srcty
    for (ity, iv) in ops[2:]:
        rt = m.resolve(t)
        if rt[0] == 'struct':
            if iv[0] != 'int':
                raise IRError('non-constant struct index')
            t = rt[1][iv[1]]
        elif rt[0] in ('array', 'vector'):
            t = rt[2]
        else:
            raise IRError('gep into %s' % (rt,))
    return ('ptr', t)


def _resolve_lines(m):
    loc = {}
    for mid, (kind, d) in m.md.items():
        if kind == 'DILocation':
            loc[mid] = (int(d.get('line', '0')), int(d.get('column', '0')), d.get('scope'))

    def scope_fn(sid, depth=0):
        while sid and depth < 50:
            ent = m.md.get(sid)
            if not ent:
                return None
            if ent[0] == 'DISubprogram':
                return ent[1].get('name', '').strip('"')
            sid = ent[1].get('scope') if isinstance(ent[1], dict) else None
            depth += 1
        return None
    filecache = {}

    def scope_file(sid):
        if sid in filecache:
            return filecache[sid]
        cur = sid
        res = None
        for _ in range(50):
            ent = m.md.get(cur)
            if not ent or not isinstance(ent[1], dict):
                break
            fid = ent[1].get('file')
            if fid and fid in m.md and m.md[fid][0] == 'DIFile':
                res = m.md[fid][1].get('filename', '').strip('"')
                break
            cur = ent[1].get('scope')
            if not cur:
                break
        filecache[sid] = res
        return res
    for f in m.functions.values():
        ffile = scope_file(f.dbg) if f.dbg else None
        f.file = ffile or m.srcfile
        last = f.line
        for ins in f.instructions():
            if ins.dbg and ins.dbg in loc:
                ln, col, sc = loc[ins.dbg]
                if ln:
                    ins.line, ins.col = ln, col
                    last = ln
                else:
                    ins.line = last
            else:
                ins.line = last


def load(path, srcfile=None):
    with open(path) as fh:
        return parse_module(fh.read(), srcfile)
