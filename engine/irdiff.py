"""irdiff: structural comparison of two LLVM IR modules built from the same
unit with different flags (translation-validation style: identical IR after
normalisation means no compiled behaviour can differ)."""
import re

_MD_ATTACH = re.compile(r'(, )?![a-zA-Z_.]+ ![0-9]+')
_ATTR_GRP = re.compile(r' #[0-9]+')


DBG = {}


def line_of(text, dbgid):
    m = re.search(r'^%s = !DILocation\(line: ([0-9]+)' % re.escape(dbgid), text, re.M)
    return int(m.group(1)) if m else 0


def normalise(text):
    """-> dict function name -> list of normalised instruction lines, plus globals list"""
    funcs = {}
    globs = []
    cur = None
    for line in text.split('\n'):
        s = line.rstrip()
        if not s or s.lstrip().startswith(';'):
            continue
        if s.startswith('source_filename') or s.startswith('!') or s.startswith('attributes ') or \
                s.startswith('target ') or s.startswith('declare '):
            continue
        if s.startswith('define '):
            name = re.search(r'@("[^"]*"|[-a-zA-Z$._0-9]+)\(', s).group(1)
            cur = []
            funcs[name] = cur
            hdr = _ATTR_GRP.sub('', _MD_ATTACH.sub('', s))
            hdr = re.sub(r' !dbg ![0-9]+', '', hdr)
            cur.append(hdr)
            continue
        if s == '}':
            cur = None
            continue
        if cur is None:
            if s.startswith('@') or s.startswith('%'):
                globs.append(_MD_ATTACH.sub('', s))
            continue
        t = s.strip()
        if t.startswith('call void @llvm.dbg.') or t.startswith('tail call void @llvm.dbg.'):
            continue
        dm = re.search(r'!dbg (![0-9]+)', t)
        t = _MD_ATTACH.sub('', t)
        t = _ATTR_GRP.sub('', t)
        cur.append(t)
        if dm:
            DBG[(name, len(cur) - 1)] = dm.group(1)
    return funcs, globs


def diff(text_a, text_b):
    """-> list of (function, index, line_a, line_b) differences (first per function)"""
    fa, ga = normalise(text_a)
    fb, gb = normalise(text_b)
    out = []
    for name in sorted(set(fa) | set(fb)):
        a = fa.get(name)
        b = fb.get(name)
        if a is None or b is None:
            out.append((name, -1, 'present' if a else 'absent', 'present' if b else 'absent'))
            continue
        if a != b:
            for i in range(max(len(a), len(b))):
                la = a[i] if i < len(a) else '<end>'
                lb = b[i] if i < len(b) else '<end>'
                if la != lb:
                    ln = 0
                    for (tx, fx) in ((text_a, fa), (text_b, fb)):
                        pass
                    out.append((name, i, la, lb))
                    break
    if ga != gb:
        for i in range(max(len(ga), len(gb))):
            la = ga[i] if i < len(ga) else '<end>'
            lb = gb[i] if i < len(gb) else '<end>'
            if la != lb:
                out.append(('<globals>', i, la, lb))
                break
    ninstr = sum(len(v) for v in fa.values())
    return out, len(fa), ninstr
