"""absval: abstract values, regions and the abstract state of `absint`."""
from .lin import Aff, Store


class V:
    __slots__ = ()


class Int(V):
    """integer of width w in unsigned bit-pattern view; a = affine form (value in [0,2^w));
    pred = optional predicate this 0/1 value is the truth of"""
    __slots__ = ('w', 'a', 'pred', 'sl')

    def __init__(self, w, a, pred=None, sl=None):
        self.w = w
        self.a = a
        self.pred = pred
        self.sl = sl          # optional byte-slot vector (little end first), see absint.Ops.slots

    def key(self):
        return ('i', self.w, self.a.key())

    def __repr__(self):
        return 'i%d:%r' % (self.w, self.a)


class Ptr(V):
    __slots__ = ('region', 'off')

    def __init__(self, region, off):
        self.region = region
        self.off = off

    def key(self):
        return ('p', self.region, self.off.key())

    def __repr__(self):
        return '&%s[%r]' % (self.region, self.off)


class Null(V):
    __slots__ = ()

    def key(self):
        return ('null',)

    def __repr__(self):
        return 'NULL'


class Fn(V):
    __slots__ = ('name',)

    def __init__(self, name):
        self.name = name

    def key(self):
        return ('fn', self.name)

    def __repr__(self):
        return '@' + self.name


class Top(V):
    """unknown pointer / float / aggregate; `why` explains where it came from"""
    __slots__ = ('kind', 'why')

    def __init__(self, kind='ptr', why=''):
        self.kind = kind
        self.why = why

    def key(self):
        return ('top', self.kind)

    def __repr__(self):
        return 'T(%s:%s)' % (self.kind, self.why)


class Zero(V):
    """a zero-filled block (memset 0) covering a cell range"""
    __slots__ = ()

    def key(self):
        return ('zero',)

    def __repr__(self):
        return 'ZERO'


NULL = Null()
ZERO = Zero()


def veq(a, b):
    return a is b or (type(a) is type(b) and a.key() == b.key())


class Region:
    """static description of a memory object"""
    __slots__ = ('name', 'kind', 'length', 'readonly', 'content', 'writable_by', 'elem', 'doc')

    def __init__(self, name, kind, length, readonly=False, content='cells', doc=''):
        self.name = name
        self.kind = kind          # 'obj' (field-sensitive), 'buf' (symbolic read-only bytes), 'sink' (write-only), 'span' (caller data)
        self.length = length      # Aff (bytes)
        self.readonly = readonly
        self.content = content    # 'cells' | 'bytes' (memoised unknown bytes) | 'none'
        self.elem = None          # for arrays of structs: element size
        self.doc = doc


class PathLink:
    __slots__ = ('prev', 'item')

    def __init__(self, prev, item):
        self.prev = prev
        self.item = item

    def tolist(self):
        out = []
        p = self
        while p is not None:
            out.append(p.item)
            p = p.prev
        out.reverse()
        return out


class Frame:
    __slots__ = ('fn', 'env', 'callsite', 'allocas', 'depth')

    def __init__(self, fn, callsite, depth):
        self.fn = fn
        self.env = {}
        self.callsite = callsite
        self.allocas = {}
        self.depth = depth

    def copy(self):
        f = Frame.__new__(Frame)
        f.fn = self.fn
        f.env = dict(self.env)
        f.callsite = self.callsite
        f.allocas = self.allocas
        f.depth = self.depth
        return f


class SymInfo:
    __slots__ = ('origin', 'w', 'defn')

    def __init__(self, origin, w, defn=None):
        self.origin = origin   # e.g. 'entry:P.depth', 'arg:buffer_size', 'buf', 'ext:strlen', 'wrap', 'head'
        self.w = w
        self.defn = defn       # ('addw', a, b, w) ...


class State:
    """one disjunct: frames (SSA env), memory cells, constraint store, event/path lists"""
    __slots__ = ('frames', 'mem', 'owned', 'store', 'regions', 'syminfo', 'path', 'events', 'kb', 'andmemo',
                 'bufmemo', 'ctrl', 'ctx', 'tags')

    def __init__(self, ctx):
        self.frames = []
        self.mem = {}
        self.owned = set()
        self.store = Store()
        self.regions = {}
        self.syminfo = ctx.syminfo      # shared (global symbol table: names are unique per run)
        self.path = None
        self.events = None
        self.kb = {}                    # sym -> (zeros mask, ones mask)
        self.andmemo = {}               # (sym, mask) -> result sym
        self.bufmemo = {}               # (region, off key) -> byte sym
        self.ctrl = frozenset()         # symbols that influenced control flow on this path
        self.ctx = ctx
        self.tags = {}

    def copy(self):
        s = State.__new__(State)
        s.frames = self.frames[:-1] + [self.frames[-1].copy()] if self.frames else []
        s.mem = dict(self.mem)
        s.owned = set()
        self.owned = set()   # both sides lose ownership: region dicts are now shared
        s.store = self.store.copy()
        s.regions = self.regions if not self.tags.get('_regions_dirty') else dict(self.regions)
        s.regions = dict(self.regions)
        s.syminfo = self.syminfo
        s.path = self.path
        s.events = self.events
        s.kb = dict(self.kb)
        s.andmemo = dict(self.andmemo)
        s.bufmemo = dict(self.bufmemo)
        s.ctrl = self.ctrl
        s.ctx = self.ctx
        s.tags = dict(self.tags)
        return s

    # ---- symbols ----------------------------------------------------------------
    def fresh(self, origin, w, lo=None, hi=None, defn=None):
        name = self.ctx.newsym(origin)
        self.syminfo[name] = SymInfo(origin, w, defn)
        self.store.declare(name, 0 if lo is None else lo, ((1 << w) - 1) if hi is None else hi)
        return name

    def fresh_int(self, origin, w, lo=None, hi=None, defn=None):
        if lo is not None and lo == hi:
            return Int(w, Aff(lo))
        return Int(w, Aff.sym(self.fresh(origin, w, lo, hi, defn)))

    # ---- env ---------------------------------------------------------------------
    @property
    def top(self):
        return self.frames[-1]

    def setv(self, name, v):
        self.frames[-1].env[name] = v

    def getv(self, name):
        return self.frames[-1].env[name]

    # ---- memory ------------------------------------------------------------------
    def cells(self, region):
        return self.mem.get(region)

    def wcells(self, region):
        d = self.mem.get(region)
        if d is None:
            d = {}
            self.mem[region] = d
            self.owned.add(region)
        elif region not in self.owned:
            d = dict(d)
            self.mem[region] = d
            self.owned.add(region)
        return d

    def add_region(self, r):
        self.regions[r.name] = r

    def event(self, ev):
        self.events = PathLink(self.events, ev)

    def decide(self, item):
        self.path = PathLink(self.path, item)

    def eventlist(self):
        return self.events.tolist() if self.events else []

    def pathlist(self):
        return self.path.tolist() if self.path else []
