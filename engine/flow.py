"""flow: classic dataflow helpers on top of irload (use-def closure, edge
dominance, must-pass-through, taint with control dependence, must-write)."""
from collections import defaultdict


def uses_map(fn):
    """ssa name -> list of instructions using it"""
    um = defaultdict(list)
    for ins in fn.instructions():
        for (t, v) in ins.ops:
            _collect(v, ins, um)
        cal = ins.attrs.get('callee')
        if cal is not None and cal[0] == 'local':
            um[cal[1]].append(ins)
    return um


def _collect(v, ins, um):
    if v[0] == 'local':
        um[v[1]].append(ins)
    elif v[0] == 'cexpr':
        for (t, x) in v[2]:
            _collect(x, ins, um)
    elif v[0] == 'agg':
        for (t, x) in v[1]:
            _collect(x, ins, um)


_TRANSPARENT = {'zext', 'sext', 'trunc', 'bitcast', 'phi', 'select', 'xor', 'and', 'or', 'icmp', 'freeze',
                'getelementptr', 'inttoptr', 'ptrtoint'}


def forward_closure(fn, name, um=None, through=_TRANSPARENT):
    """all instructions reached from value `name` through value-preserving ops; returns
    (set of derived ssa names, list of sink instructions (non-transparent users))"""
    um = um or uses_map(fn)
    seen = {name}
    work = [name]
    sinks = []
    while work:
        x = work.pop()
        for u in um.get(x, ()):
            if u.op in through and u.res is not None:
                if u.res not in seen:
                    seen.add(u.res)
                    work.append(u.res)
            else:
                sinks.append((x, u))
    return seen, sinks


def derived_from(fn, base):
    """ssa names that are pointers derived from `base` through gep/bitcast/phi/select"""
    um = uses_map(fn)
    seen, _ = forward_closure(fn, base, um, through={'getelementptr', 'bitcast', 'phi', 'select'})
    return seen


def reachable_blocks(fn, start, blocked=()):
    """blocks reachable from block name `start` (inclusive) without entering `blocked`"""
    seen = set()
    work = [start]
    while work:
        b = work.pop()
        if b in seen or b in blocked:
            continue
        seen.add(b)
        work.extend(fn.blocks[b].succs)
    return seen


def edge_dominates(fn, src, dst, target_block):
    """does the CFG edge src->dst dominate block `target_block`?  (sound, incomplete:
    requires dst to have src as its only predecessor)"""
    preds = fn.blocks[dst].preds
    if len(preds) == 1 and preds[0] == src:
        return fn.dominates(dst, target_block)
    return False


def callee_name(ins):
    if ins.op in ('call', 'invoke'):
        c = ins.attrs['callee']
        if c[0] == 'global':
            return c[1]
    return None


def control_deps(fn):
    """block -> set of (branch block) it is control dependent on, via post-dominators.
    Computed on the reverse CFG with a virtual exit."""
    blocks = list(fn.rpo())
    exits = [b for b in blocks if not fn.blocks[b].succs]
    # post-dominator sets (iterative, small functions)
    allb = set(blocks)
    pdom = {b: set(allb) for b in blocks}
    for e in exits:
        pdom[e] = {e}
    changed = True
    while changed:
        changed = False
        for b in reversed(blocks):
            if b in exits:
                continue
            succs = [s for s in fn.blocks[b].succs if s in allb]
            if not succs:
                continue
            new = set(allb)
            for s in succs:
                new &= pdom[s]
            new = new | {b}
            if new != pdom[b]:
                pdom[b] = new
                changed = True
    cd = defaultdict(set)
    for a in blocks:
        succs = fn.blocks[a].succs
        if len(succs) < 2:
            continue
        for s in succs:
            # every block on the post-dominator chain of s that does not strictly post-dominate a
            for x in pdom[s]:
                if x not in pdom[a] or x == a:
                    cd[x].add(a)
    return cd, pdom
