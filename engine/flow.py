"""flow: classic dataflow helpers on top of irload (use-def closure, edge
dominance, must-pass-through, taint with control dependence, must-write)."""
from collections import defaultdict


def uses_map(fn):
    """ssa name -> list of instructions using it"""
    um = defaultdict(list)
    for ins in fn.instructions():
        for (t, v) in ins.ops:
            _collect(v, ins, um)
        cal = ins.attrs.get('callee')
        if cal is not None and cal[0] == 'local':
            um[cal[1]].append(ins)
    return um


def _collect(v, ins, um):
    if v[0] == 'local':
        um[v[1]].append(ins)
    elif v[0] == 'cexpr':
        for (t, x) in v[2]:
            _collect(x, ins, um)
    elif v[0] == 'agg':
        for (t, x) in v[1]:
            _collect(x, ins, um)


_TRANSPARENT = {'zext', 'sext', 'trunc', 'bitcast', 'phi', 'select', 'xor', 'and', 'or', 'icmp', 'freeze',
                'getelementptr', 'inttoptr', 'ptrtoint'}


def forward_closure(fn, name, um=None, through=_TRANSPARENT):
    """all instructions reached from value `name` through value-preserving ops; returns
    (set of derived ssa names, list of sink instructions (non-transparent users))"""
    um = um or uses_map(fn)
    seen = {name}
    work = [name]
    sinks = []
    while work:
        x = work.pop()
        for u in um.get(x, ()):
            if u.op in through and u.res is not None:
                if u.res not in seen:
                    seen.add(u.res)
                    work.append(u.res)
            else:
                sinks.append((x, u))
    return seen, sinks


def derived_from(fn, base):
    """ssa names that are pointers derived from `base` through gep/bitcast/phi/select"""
    um = uses_map(fn)
    seen, _ = forward_closure(fn, base, um, through={'getelementptr', 'bitcast', 'phi', 'select'})
    return seen


def reachable_blocks(fn, start, blocked=()):
    """blocks reachable from block name `start` (inclusive) without entering `blocked`"""
    seen = set()
    work = [start]
    while work:
        b = work.pop()
        if b in seen or b in blocked:
            continue
        seen.add(b)
        work.extend(fn.blocks[b].succs)
    return seen


def edge_dominates(fn, src, dst, target_block):
    """does the CFG edge src->dst dominate block `target_block`?  (sound, incomplete:
    requires dst to have src as its only predecessor)"""
    preds = fn.blocks[dst].preds
    if len(preds) == 1 and preds[0] == src:
        return fn.dominates(dst, target_block)
    return False


def callee_name(ins):
    if ins.op in ('call', 'invoke'):
        c = ins.attrs['callee']
        if c[0] == 'global':
            return c[1]
    return None


def control_deps(fn):
    """block -> set of (branch block) it is control dependent on, via post-dominators.
    Computed on the reverse CFG with a virtual exit."""
    blocks = list(fn.rpo())
    exits = [b for b in blocks if not fn.blocks[b].succs]
    # post-dominator sets (iterative, small functions)
    allb = set(blocks)
    pdom = {b: set(allb) for b in blocks}
    for e in exits:
        pdom[e] = {e}
    changed = True
    while changed:
        changed = False
        for b in reversed(blocks):
            if b in exits:
                continue
            succs = [s for s in fn.blocks[b].succs if s in allb]
            if not succs:
                continue
            new = set(allb)
            for s in succs:
                new &= pdom[s]
            new = new | {b}
            if new != pdom[b]:
                pdom[b] = new
                changed = True
    cd = defaultdict(set)
    for a in blocks:
        succs = fn.blocks[a].succs
        if len(succs) < 2:
            continue
        for s in succs:
            # every block on the post-dominator chain of s that does not strictly post-dominate a
            for x in pdom[s]:
                if x not in pdom[a] or x == a:
                    cd[x].add(a)
    return cd, pdom


# ------------------------------------------------------------------------------------------------
# taint / non-interference (data + control dependence), field-based memory, context-insensitive

def mem_key(fn, v, depth=0):
    """abstract location a pointer operand denotes: ('field', struct, idx) | ('alloca', fn, name) |
    ('param', fn, name) | ('global', name) | ('unknown',)"""
    if v[0] == 'global':
        return ('global', v[1])
    if v[0] == 'cexpr':
        return mem_key(fn, v[2][0][1], depth + 1)
    if v[0] != 'local' or depth > 12:
        return ('unknown',)
    d = fn.defs.get(v[1])
    if d is None:
        return ('param', fn.name, v[1])
    if d.op == 'alloca':
        return ('alloca', fn.name, d.res)
    if d.op == 'getelementptr':
        st = d.attrs['srcty']
        idx = [x[1] for x in d.ops[1:]]
        if st[0] == 'named' and len(idx) >= 2 and idx[0] == ('int', 0) and idx[1][0] == 'int':
            m = fn.module
            rt = m.resolve(st)
            if rt[0] == 'struct':
                return ('field', st[1], idx[1][1])
        return mem_key(fn, d.ops[0][1], depth + 1)
    if d.op in ('bitcast', 'phi', 'select'):
        if d.op == 'bitcast':
            # a bitcast to a named struct pointer followed by a field gep is handled by the gep case;
            # the bitcast itself denotes whatever its operand denotes
            return mem_key(fn, d.ops[0][1], depth + 1)
        return ('unknown',)
    if d.op == 'load':
        return ('unknown',)
    return ('unknown',)


def base_kind(fn, v, depth=0):
    """'alloca' | 'param' | 'global' | 'unknown': what object a pointer operand is derived from"""
    if v[0] == 'global':
        return 'global'
    if v[0] != 'local' or depth > 12:
        return 'unknown'
    d = fn.defs.get(v[1])
    if d is None:
        return 'param'
    if d.op == 'alloca':
        return 'alloca'
    if d.op in ('getelementptr', 'bitcast'):
        return base_kind(fn, d.ops[0][1], depth + 1)
    return 'unknown'


class Taint:
    def __init__(self, mod, is_source, result_args=None, skip_fns=()):
        """is_source(fn, ins) -> bool for loads; result_args: callee name -> list of argument indices whose
        taint flows to the call result (default: all), for externals"""
        self.mod = mod
        self.is_source = is_source
        self.result_args = result_args or {}
        self.skip = set(skip_fns)
        self.tv = set()        # (fn, ssa)
        self.tparam = set()    # (fn, index)
        self.tmem = set()      # memory keys
        self.tret = set()      # function names with tainted return
        self.tctl = {}         # fn -> set of blocks under tainted control
        self.tctx = set()      # functions only reached under tainted control (at some call site)
        self.why = {}          # (fn, ssa) or key -> reason text
        self.cd = {}
        self.um = {}

    def _tainted(self, fn, v):
        if v[0] == 'local':
            if (fn.name, v[1]) in self.tv:
                return True
            for i, (t, pn) in enumerate(fn.params):
                if pn == v[1] and (fn.name, i) in self.tparam:
                    return True
            return False
        if v[0] == 'cexpr':
            return any(self._tainted(fn, x[1]) for x in v[2])
        return False

    def run(self):
        mod = self.mod
        fns = [f for n, f in mod.functions.items() if n not in self.skip]
        self._allfns = fns
        # side-effect-free helpers (no load/store/call) are evaluated per call site: result depends on the arguments there
        self.pure = set()
        for f in fns:
            if all(i.op not in ('load', 'store', 'call', 'invoke') for i in f.instructions()):
                self.pure.add(f.name)
        for f in fns:
            self.cd[f.name] = control_deps(f)[0]
            self.tctl[f.name] = set()
        changed = True
        rounds = 0
        while changed:
            changed = False
            rounds += 1
            for f in fns:
                tc = self.tctl[f.name]
                for ins in f.instructions():
                    # data flow
                    t = False
                    why = None
                    if ins.op == 'load':
                        if self.is_source(f, ins):
                            t, why = True, 'source load at %s' % ins.loc()
                        else:
                            k = mem_key(f, ins.ops[0][1])
                            if k in self.tmem or (k[0] == 'unknown' and ('unknown',) in self.tmem):
                                t, why = True, 'load of tainted memory %r at %s' % (k, ins.loc())
                            elif k[0] == 'param' and self._tainted(f, ins.ops[0][1]):
                                t, why = False, None
                    elif ins.op in ('call', 'invoke'):
                        cn = callee_name(ins)
                        callee = mod.functions.get(cn) if cn else None
                        if callee is not None and cn in self.pure:
                            for i, (ty, v) in enumerate(ins.ops):
                                if self._tainted(f, v):
                                    t, why = True, 'result of pure helper %s with tainted argument at %s' % (cn, ins.loc())
                        elif callee is not None and cn not in self.skip:
                            for i, (ty, v) in enumerate(ins.ops):
                                if self._tainted(f, v) and (cn, i) not in self.tparam:
                                    self.tparam.add((cn, i))
                                    self.why[('param', cn, i)] = 'argument %d of call at %s' % (i, ins.loc())
                                    changed = True
                            if (ins.block.name in tc or f.name in self.tctx) and cn not in self.tctx:
                                self.tctx.add(cn)
                                self.why[('ctx', cn)] = 'called under tainted control at %s' % ins.loc()
                                changed = True
                            if cn in self.tret:
                                t, why = True, 'result of %s (tainted return) at %s' % (cn, ins.loc())
                        elif cn is not None:
                            idxs = self.result_args.get(cn)
                            for i, (ty, v) in enumerate(ins.ops):
                                if idxs is not None and i not in idxs and not (idxs and idxs[-1] == -1 and i >= idxs[-2]):
                                    continue
                                if self._tainted(f, v):
                                    t, why = True, 'result of external %s with tainted argument at %s' % (cn, ins.loc())
                            # externals that write through their first argument (memmove/memset/snprintf) are sinks of
                            # content only; content is not tracked here
                    elif ins.op == 'store':
                        if self._tainted(f, ins.ops[0][1]) or ins.block.name in tc or f.name in self.tctx:
                            k = mem_key(f, ins.ops[1][1])
                            if k not in self.tmem:
                                self.tmem.add(k)
                                self.why[k] = ('store of tainted value at %s' if self._tainted(f, ins.ops[0][1])
                                               else 'store under source-dependent control at %s') % ins.loc()
                                changed = True
                    elif ins.op == 'phi':
                        for (v, lb) in ins.attrs['incoming']:
                            if self._tainted(f, v):
                                t, why = True, 'phi operand at %s' % ins.loc()
                        if not t:
                            # a phi merges values selected by the branches its predecessors depend on
                            for (v, lb) in ins.attrs['incoming']:
                                if lb in tc:
                                    t, why = True, 'phi selects under tainted control at %s' % ins.loc()
                    elif ins.op == 'ret':
                        if (ins.ops and self._tainted(f, ins.ops[0][1])) or ins.block.name in tc:
                            if f.name not in self.tret and f.ret != ('void',):
                                self.tret.add(f.name)
                                self.why[('ret', f.name)] = 'tainted return at %s' % ins.loc()
                                changed = True
                    elif ins.op in ('br', 'switch'):
                        if ins.ops and self._tainted(f, ins.ops[0][1]):
                            for b, deps in self.cd[f.name].items():
                                if ins.block.name in deps and b not in tc:
                                    tc.add(b)
                                    self.why[('ctl', f.name, b)] = 'branch on tainted value at %s' % ins.loc()
                                    changed = True
                    else:
                        for (ty, v) in ins.ops:
                            if self._tainted(f, v):
                                t, why = True, 'operand of %s at %s' % (ins.op, ins.loc())
                                break
                    if ins.op in ('br', 'switch') and ins.block.name in tc:
                        # control dependence is transitive: whatever depends on a branch that itself only executes under
                        # source-dependent control is under source-dependent control
                        for b, deps in self.cd[f.name].items():
                            if ins.block.name in deps and b not in tc:
                                tc.add(b)
                                self.why[('ctl', f.name, b)] = self.why.get(('ctl', f.name, ins.block.name), '') + ' (transitively, via %s)' % ins.loc()
                                changed = True
                    if t and ins.res is not None and (f.name, ins.res) not in self.tv:
                        self.tv.add((f.name, ins.res))
                        self.why[(f.name, ins.res)] = why
                        changed = True
            if rounds > 200:
                break
        return self

    def explain(self, fn, v, depth=0):
        """chain of reasons for a tainted operand"""
        out = []
        seen = set()
        cur = v
        f = fn
        for _ in range(12):
            if cur[0] != 'local':
                break
            key = (f.name, cur[1])
            if key in seen:
                break
            seen.add(key)
            w = self.why.get(key)
            if not w:
                for i, (t, pn) in enumerate(f.params):
                    if pn == cur[1] and (f.name, i) in self.tparam:
                        out.append('parameter %d of %s: %s' % (i, f.name, self.why.get(('param', f.name, i), '')))
                break
            out.append('%%%s in %s: %s' % (cur[1], f.name, w))
            d = f.defs.get(cur[1])
            if d is None:
                break
            nxt = None
            for (t, x) in d.ops:
                if x[0] == 'local' and self._tainted(f, x):
                    nxt = x
                    break
            if nxt is None:
                break
            cur = nxt
        return out

    def check_sinks(self, is_sink):
        """is_sink(fn, ins) for store instructions -> list of (ins, reason list)"""
        out = []
        n = 0
        for f in self.mod.functions.values():
            if f.name in self.skip:
                continue
            for ins in f.instructions():
                if ins.op == 'store' and is_sink(f, ins):
                    n += 1
                    reasons = []
                    if self._tainted(f, ins.ops[0][1]):
                        reasons.append('stored value depends on a source:')
                        reasons += ['  ' + x for x in self.explain(f, ins.ops[0][1])]
                    if ins.block.name in self.tctl[f.name]:
                        reasons.append('store is control dependent on a source: %s' % self.why.get(('ctl', f.name, ins.block.name), ''))
                    if f.name in self.tctx:
                        reasons.append('function %s is reached under source-dependent control: %s' % (f.name, self.why.get(('ctx', f.name), '')))
                    out.append((ins, reasons))
        return out, n
