"""lin: affine forms over integer symbols, and a small conjunctive constraint
store (intervals + linear inequalities) with an in-domain entailment test
(bound propagation, then Fourier-Motzkin elimination on the cone of influence).

Everything is exact integer arithmetic.  The store is a conjunction; an answer
"not entailed" may be imprecise, an answer "entailed"/"infeasible" is sound.
"""
from math import gcd

FM_CAP = 600          # max live constraints during one elimination
FM_SYM_CAP = 40       # give up above this many symbols in the cone


class Aff:
    """c + sum(coef*sym); immutable"""
    __slots__ = ('c', 't', '_k')

    def __init__(self, c=0, t=None):
        self.c = c
        self.t = t if t else {}
        self._k = None

    @staticmethod
    def const(c):
        return Aff(c)

    @staticmethod
    def sym(s, k=1):
        if k == 0:
            return Aff(0)
        return Aff(0, {s: k})

    def key(self):
        if self._k is None:
            self._k = (self.c, tuple(sorted(self.t.items())))
        return self._k

    def __eq__(self, o):
        return isinstance(o, Aff) and self.key() == o.key()

    def __hash__(self):
        return hash(self.key())

    def is_const(self):
        return not self.t

    def syms(self):
        return self.t.keys()

    def add(self, o):
        if isinstance(o, int):
            return Aff(self.c + o, self.t)
        t = dict(self.t)
        for s, k in o.t.items():
            v = t.get(s, 0) + k
            if v:
                t[s] = v
            else:
                t.pop(s, None)
        return Aff(self.c + o.c, t)

    def neg(self):
        return Aff(-self.c, {s: -k for s, k in self.t.items()})

    def sub(self, o):
        if isinstance(o, int):
            return Aff(self.c - o, self.t)
        return self.add(o.neg())

    def mul(self, k):
        if k == 0:
            return Aff(0)
        return Aff(self.c * k, {s: v * k for s, v in self.t.items()})

    def subst(self, m):
        """m: sym -> Aff"""
        r = Aff(self.c)
        for s, k in self.t.items():
            if s in m:
                r = r.add(m[s].mul(k))
            else:
                r = r.add(Aff(0, {s: k}))
        return r

    def single(self):
        """(sym, coef) if exactly one symbol else None"""
        if len(self.t) == 1:
            for s, k in self.t.items():
                return (s, k)
        return None

    def __repr__(self):
        parts = []
        for s, k in sorted(self.t.items()):
            if k == 1:
                parts.append('+%s' % s)
            elif k == -1:
                parts.append('-%s' % s)
            else:
                parts.append('%+d*%s' % (k, s))
        if self.c or not parts:
            parts.append('%+d' % self.c)
        r = ''.join(parts)
        return r[1:] if r.startswith('+') else r


def _norm(e):
    """normalise e >= 0 over integers: divide by gcd of coefficients, floor the constant"""
    g = 0
    for k in e.t.values():
        g = gcd(g, abs(k))
    if g > 1:
        return Aff(e.c // g, {s: k // g for s, k in e.t.items()})
    return e


class Store:
    """conjunction of: sym in [lo,hi]; list of Aff >= 0 (relational); Aff != 0 (few)"""
    __slots__ = ('ivl', 'rel', 'relset', 'neq', 'bottom', 'cache', 'byterms')

    def __init__(self):
        self.ivl = {}
        self.rel = []
        self.relset = set()
        self.neq = []
        self.bottom = False
        self.cache = {}
        self.byterms = {}

    def copy(self):
        s = Store.__new__(Store)
        s.ivl = dict(self.ivl)
        s.rel = list(self.rel)
        s.relset = set(self.relset)
        s.neq = list(self.neq)
        s.bottom = self.bottom
        s.cache = self.cache        # shared until either side learns something new
        s.byterms = dict(self.byterms)
        return s

    def _dirty(self):
        self.cache = {}

    def set_rel(self, rel):
        """replace the relational part (used by joins)"""
        self.rel = []
        self.relset = set()
        self.byterms = {}
        self.cache = {}
        for e in rel:
            k = e.key()
            old = self.byterms.get(k[1])
            if old is not None:
                if old.c <= e.c:
                    continue
                self.relset.discard(old.key())
                self.rel = [x for x in self.rel if x is not old]
            self.byterms[k[1]] = e
            self.relset.add(k)
            self.rel.append(e)

    # ---- intervals -----------------------------------------------------------
    def declare(self, sym, lo, hi):
        self.ivl[sym] = (lo, hi)

    def bounds(self, e):
        lo = hi = e.c
        for s, k in e.t.items():
            a, b = self.ivl[s]
            if k > 0:
                lo += k * a
                hi += k * b
            else:
                lo += k * b
                hi += k * a
        return lo, hi

    def const_of(self, e):
        if not e.t:
            return e.c
        lo, hi = self.bounds(e)
        return lo if lo == hi else None

    # ---- assume ----------------------------------------------------------------
    def assume_ge0(self, e, propagate=True):
        """add e >= 0; returns False if the store became infeasible"""
        if self.bottom:
            return False
        if not e.t:
            if e.c < 0:
                self.bottom = True
            return not self.bottom
        e = _norm(e)
        lo, hi = self.bounds(e)
        if hi < 0:
            self.bottom = True
            return False
        if lo >= 0:
            return True
        if len(e.t) == 1:
            (s, k), = e.t.items()
            a, b = self.ivl[s]
            # k*s + c >= 0
            if k > 0:
                na = -(e.c // k)  # ceil(-c/k)
                if na > a:
                    a = na
            else:
                nb = e.c // (-k)  # floor(c/-k)
                if nb < b:
                    b = nb
            if a > b:
                self.bottom = True
                return False
            self.ivl[s] = (a, b)
            self.cache = {}
            if propagate:
                return self._propagate({s})
            return True
        k = e.key()
        if k not in self.relset:
            tk = k[1]
            old = self.byterms.get(tk)
            if old is not None:
                if old.c <= e.c:
                    return True          # an at-least-as-tight constraint over the same terms is present
                # e is tighter: replace the dominated one
                self.relset.discard(old.key())
                self.rel = [x for x in self.rel if x is not old and x.key() != old.key()]
            self.byterms[tk] = e
            self.relset.add(k)
            self.rel.append(e)
            self.cache = {}
        if propagate:
            return self._propagate(set(e.t), first=e)
        return True

    def assume_eq0(self, e):
        return self.assume_ge0(e) and self.assume_ge0(e.neg())

    def assume_ne0(self, e):
        if self.bottom:
            return False
        if not e.t:
            if e.c == 0:
                self.bottom = True
            return not self.bottom
        lo, hi = self.bounds(e)
        if lo > 0 or hi < 0:
            return True
        sg = e.single()
        if sg:
            s, k = sg
            # k*s + c != 0  -> s != -c/k
            if (-e.c) % k == 0:
                v = (-e.c) // k
                a, b = self.ivl[s]
                if a == b == v:
                    self.bottom = True
                    return False
                if a == v:
                    self.ivl[s] = (a + 1, b)
                    return self._propagate({s})
                if b == v:
                    self.ivl[s] = (a, b - 1)
                    return self._propagate({s})
            else:
                return True
        self.neq.append(e)
        self.cache = {}
        return True

    def _propagate(self, dirty, first=None, rounds=12):
        """bound propagation over relational constraints touching dirty symbols"""
        if not self.rel:
            return True
        ivl = self.ivl
        self.cache = {}
        for _ in range(rounds):
            nd = set()
            for e in self.rel:
                t = e.t
                hit = False
                for s in t:
                    if s in dirty:
                        hit = True
                        break
                if not hit:
                    continue
                # e = c + sum k_i s_i >= 0 ; for each j: k_j s_j >= -c - sum_{i!=j} max(k_i s_i)
                tot_hi = e.c
                for s, k in t.items():
                    a, b = ivl[s]
                    tot_hi += k * b if k > 0 else k * a
                if tot_hi < 0:
                    self.bottom = True
                    return False
                for s, k in t.items():
                    a, b = ivl[s]
                    own_hi = k * b if k > 0 else k * a
                    rest_hi = tot_hi - own_hi
                    # k*s >= -rest_hi
                    if k > 0:
                        na = -(rest_hi // k)
                        if na > a:
                            if na > b:
                                self.bottom = True
                                return False
                            ivl[s] = (na, b)
                            nd.add(s)
                            tot_hi = tot_hi  # own_hi unchanged (depends on b)
                    else:
                        nb = rest_hi // (-k)
                        if nb < b:
                            if nb < a:
                                self.bottom = True
                                return False
                            ivl[s] = (a, nb)
                            nd.add(s)
            if not nd:
                break
            dirty = nd
        # disequalities that became decidable
        if self.neq:
            keep = []
            for e in self.neq:
                lo, hi = self.bounds(e)
                if lo == hi == 0:
                    self.bottom = True
                    return False
                if lo > 0 or hi < 0:
                    continue
                keep.append(e)
            self.neq = keep
        return True

    # ---- entailment ------------------------------------------------------------
    def entails_ge0(self, e):
        if self.bottom:
            return True
        if not e.t:
            return e.c >= 0
        lo, hi = self.bounds(e)
        if lo >= 0:
            return True
        if hi < 0:
            return False
        k = e.key()
        if k in self.relset:
            return True
        hit = self.cache.get(k)
        if hit is not None:
            return hit
        dom = self.byterms.get(k[1])
        if dom is not None and dom.c <= e.c:
            self.cache[k] = True
            return True
        # e = c + (e - c) with c >= 0 a stored constraint and (e - c) >= 0 by intervals
        et = e.t
        ivl = self.ivl
        for c in self.rel:
            ct = c.t
            shared = False
            for z in ct:
                if z in et:
                    shared = True
                    break
            if not shared:
                continue
            # lower bound of e - c
            lo2 = e.c - c.c
            ok = True
            for z, kz in et.items():
                kk = kz - ct.get(z, 0)
                if kk:
                    a, b = ivl[z]
                    lo2 += kk * a if kk > 0 else kk * b
            for z, kz in ct.items():
                if z not in et:
                    a, b = ivl[z]
                    lo2 += (-kz) * a if kz < 0 else (-kz) * b
            if lo2 >= 0:
                self.cache[k] = True
                return True
        r = self._fm_infeasible(e.neg().sub(1))
        if not r and self.neq:
            # e >= 0 follows from e + 1 >= 0 together with a recorded disequality e + 1 != 0
            e1 = e.add(1)
            k1, k2 = e1.key(), e1.neg().key()
            for q in self.neq:
                qk = q.key()
                if qk == k1 or qk == k2:
                    if self._fm_infeasible(e1.neg().sub(1)):
                        r = True
                    break
        self.cache[k] = r
        return r

    def entails_eq0(self, e):
        return self.entails_ge0(e) and self.entails_ge0(e.neg())

    def entails_ne0(self, e):
        if self.bottom:
            return True
        lo, hi = self.bounds(e)
        if lo > 0 or hi < 0:
            return True
        if not e.t:
            return e.c != 0
        for n in self.neq:
            if n.key() == e.key() or n.key() == e.neg().key():
                return True
        return self.entails_ge0(e.sub(1)) or self.entails_ge0(e.neg().sub(1))

    def feasible_with(self, e):
        """is store /\ e>=0 possibly feasible? (False only if provably infeasible)"""
        if self.bottom:
            return False
        lo, hi = self.bounds(e)
        if hi < 0:
            return False
        if lo >= 0:
            return True
        return not self._fm_infeasible(e)

    def _fm_infeasible(self, q):
        """is store /\ q>=0 infeasible over the rationals (with integer tightening)?"""
        # cone of influence
        syms = set(q.t)
        cons = [q]
        used = set()
        changed = True
        rel = self.rel
        while changed:
            changed = False
            for i, e in enumerate(rel):
                if i in used:
                    continue
                for s in e.t:
                    if s in syms:
                        used.add(i)
                        cons.append(e)
                        for s2 in e.t:
                            if s2 not in syms:
                                syms.add(s2)
                                changed = True
                        break
        if len(syms) > FM_SYM_CAP:
            # restrict: only constraints whose symbols are within 2 hops -- fall back to direct neighbours
            syms = set(q.t)
            cons = [q]
            for e in rel:
                if any(s in syms for s in e.t):
                    cons.append(e)
            for e in cons[1:]:
                syms.update(e.t)
            if len(syms) > FM_SYM_CAP:
                return False
        if quick_model(cons, syms, self.ivl):
            return False
        for s in syms:
            a, b = self.ivl[s]
            cons.append(Aff(-a, {s: 1}))
            cons.append(Aff(b, {s: -1}))
        return fm_infeasible(cons, syms)

    def project_bounds(self, e):
        """tightest (lo,hi) of e the store can show cheaply (intervals only)"""
        return self.bounds(e)


def quick_model(cons, syms, ivl):
    """cheap witness search: local bound propagation, then try the all-lower / all-upper corner points.
    True = a point satisfying every constraint was found (so the system is feasible)."""
    lo = {}
    hi = {}
    for s_ in syms:
        a, b = ivl[s_]
        lo[s_] = a
        hi[s_] = b
    rows = [(e.c, list(e.t.items())) for e in cons if e.t]
    for e in cons:
        if not e.t and e.c < 0:
            return False
    for _ in range(16):
        changed = False
        for (c, t) in rows:
            tot = c
            for s_, k in t:
                tot += k * hi[s_] if k > 0 else k * lo[s_]
            if tot < 0:
                return False       # infeasible by intervals: let the caller's FM confirm (it will, cheaply)
            for s_, k in t:
                own = k * hi[s_] if k > 0 else k * lo[s_]
                rest = tot - own
                if k > 0:
                    na = -(rest // k)
                    if na > lo[s_]:
                        if na > hi[s_]:
                            return False
                        lo[s_] = na
                        changed = True
                else:
                    nb = rest // (-k)
                    if nb < hi[s_]:
                        if nb < lo[s_]:
                            return False
                        hi[s_] = nb
                        changed = True
        if not changed:
            break
    for pt in (lo, hi):
        ok = True
        for (c, t) in rows:
            v = c
            for s_, k in t:
                v += k * pt[s_]
            if v < 0:
                ok = False
                break
        if ok:
            return True
    # greedy repair from the lower corner: satisfy one violated row at a time by moving the variable with most room
    pt = dict(lo)
    for _ in range(60):
        bad = None
        for (c, t) in rows:
            v = c
            for s_, k in t:
                v += k * pt[s_]
            if v < 0:
                bad = (v, t)
                break
        if bad is None:
            return True
        need_, t = -bad[0], bad[1]
        best = None
        room = -1
        for s_, k in t:
            r_ = (hi[s_] - pt[s_]) * k if k > 0 else (pt[s_] - lo[s_]) * (-k)
            if r_ > room:
                room, best = r_, (s_, k)
        if best is None or room <= 0:
            return False
        s_, k = best
        if k > 0:
            pt[s_] = min(hi[s_], pt[s_] + -(-need_ // k))
        else:
            pt[s_] = max(lo[s_], pt[s_] - -(-need_ // (-k)))
    return False


def fm_infeasible(cons, syms):
    """rows are (const, {sym: coef}); Fourier-Motzkin with integer tightening; True = infeasible"""
    cur = {}
    for e in cons:
        t = e.t
        if not t:
            if e.c < 0:
                return True
            continue
        g = 0
        for k in t.values():
            g = gcd(g, k if k > 0 else -k)
        c = e.c
        if g > 1:
            t = {s_: k // g for s_, k in t.items()}
            c = c // g
        tk = tuple(sorted(t.items()))
        o = cur.get(tk)
        if o is None or c < o[0]:
            cur[tk] = (c, t)
    syms = set(syms)
    while syms:
        occ = {}
        for (c, t) in cur.values():
            for s_, k in t.items():
                pn = occ.get(s_)
                if pn is None:
                    occ[s_] = [1, 0] if k > 0 else [0, 1]
                elif k > 0:
                    pn[0] += 1
                else:
                    pn[1] += 1
        best = None
        bestcost = None
        for s_ in syms:
            pn = occ.get(s_)
            if pn is None:
                continue
            cost = pn[0] * pn[1] - pn[0] - pn[1]
            if bestcost is None or cost < bestcost:
                best, bestcost = s_, cost
        if best is None:
            break
        x = best
        syms.discard(x)
        pos = []
        neg = []
        rest = {}
        for tk, row in cur.items():
            k = row[1].get(x)
            if k is None:
                rest[tk] = row
            elif k > 0:
                pos.append(row)
            else:
                neg.append(row)
        if pos and neg:
            for (pc, pt) in pos:
                kp = pt[x]
                for (nc, nt) in neg:
                    kn = -nt[x]
                    # kn*p + kp*n
                    t = {}
                    for s_, k in pt.items():
                        if s_ != x:
                            t[s_] = k * kn
                    for s_, k in nt.items():
                        if s_ != x:
                            v = t.get(s_, 0) + k * kp
                            if v:
                                t[s_] = v
                            else:
                                t.pop(s_, None)
                    c = pc * kn + nc * kp
                    if not t:
                        if c < 0:
                            return True
                        continue
                    g = 0
                    for k in t.values():
                        g = gcd(g, k if k > 0 else -k)
                    if g > 1:
                        t = {s_: k // g for s_, k in t.items()}
                        c = c // g
                    tk = tuple(sorted(t.items()))
                    o = rest.get(tk)
                    if o is None or c < o[0]:
                        rest[tk] = (c, t)
                        if len(rest) > FM_CAP:
                            return False
        cur = rest
    return False
