"""absint: context-sensitive, path-partitioned abstract interpreter over the
mem2reg'd -O0 LLVM IR (see DESIGN.md section 3).  Part 1: values, arithmetic,
comparisons, memory.  Part 2 (absint_cf.py) adds control flow, calls, loops.
"""
from .lin import Aff, Store
from .absval import (V, Int, Ptr, Null, Fn, Top, Zero, NULL, ZERO, veq, Region, State, Frame, SymInfo)
from .common import AnalysisBroken


class Ctx:
    """per-run context: symbol table, module, hooks"""

    def __init__(self, mod, hooks=None):
        self.mod = mod
        self.syminfo = {}
        self._n = 0
        self.hooks = hooks
        self.stats = {'instr': 0, 'states': 0, 'calls': 0, 'fm': 0, 'loop_rounds': 0, 'joins': 0}
        self.obligations = []    # (kind, ok, ins, detail)
        self.limits = {'cap': 512}

    def newsym(self, origin):
        self._n += 1
        base = origin.split(':')[-1].replace(' ', '_')[:18]
        return '%s#%d' % (base, self._n)


def mask(w):
    return (1 << w) - 1


class Ops:
    """value-level semantics shared by the interpreter; methods take the State explicitly"""

    def __init__(self, ctx):
        self.ctx = ctx
        self.mod = ctx.mod

    # ---- obligations ----------------------------------------------------------------
    def oblige(self, st, kind, ok, ins, what, detail=''):
        h = self.ctx.hooks
        if h is not None:
            h.obligation(st, kind, ok, ins, what, detail)

    # ---- operands --------------------------------------------------------------------
    def operand(self, st, ty, v):
        k = v[0]
        if k == 'local':
            try:
                return st.top.env[v[1]]
            except KeyError:
                raise AnalysisBroken('use of undefined SSA value %%%s in %s' % (v[1], st.top.fn.name))
        if k == 'int':
            return Int(ty[1], Aff(v[1]))
        if k == 'null':
            return NULL
        if k == 'global':
            if v[1] in self.mod.functions or v[1] in self.mod.declares:
                return Fn(v[1])
            return Ptr('@' + v[1], Aff(0))
        if k == 'undef':
            if ty[0] == 'int':
                return st.fresh_int('undef', ty[1])
            return Top('ptr', 'undef')
        if k == 'float':
            return Top('float', v[1])
        if k == 'cexpr':
            op = v[1]
            if op == 'getelementptr':
                base = self.operand(st, v[2][0][0], v[2][0][1])
                idx = [self.operand(st, t, x) for (t, x) in v[2][1:]]
                return self.gep(st, v[3]['srcty'], base, idx, None)
            if op == 'bitcast':
                return self.operand(st, v[2][0][0], v[2][0][1])
            raise AnalysisBroken('unmodelled constant expression %s' % op)
        if k == 'zero':
            if ty[0] == 'int':
                return Int(ty[1], Aff(0))
            if ty[0] == 'ptr':
                return NULL
            return ZERO
        raise AnalysisBroken('unmodelled operand %r' % (v,))

    # ---- gep --------------------------------------------------------------------------
    def gep(self, st, srcty, base, idx, ins):
        mod = self.mod
        off = Aff(0)
        t = srcty
        first = True
        for iv in idx:
            if first:
                scale = mod.sizeof(t)
                first = False
                nt = t
            else:
                rt = mod.resolve(t)
                if rt[0] == 'struct':
                    c = st.store.const_of(iv.a)
                    offs = mod.struct_layout(rt)[0]
                    off = off.add(offs[c])
                    t = rt[1][c]
                    continue
                elif rt[0] == 'array':
                    nt = rt[2]
                    scale = mod.sizeof(nt)
                else:
                    raise AnalysisBroken('gep into %r' % (rt,))
            # index is a signed integer of its width: interpret
            ia = self.signed_view(st, iv)
            if ia is None:
                # sign not known: keep the unsigned view.  If the index is really negative its unsigned value is
                # >= 2^(w-1), so every bounds obligation on the resulting pointer fails in both readings
                # (no object is larger than PTRDIFF_MAX); if it is non-negative the two readings coincide.
                ia = iv.a
            off = off.add(ia.mul(scale))
            t = nt
        if isinstance(base, Ptr):
            return Ptr(base.region, base.off.add(off))
        if isinstance(base, Null):
            if off.is_const() and off.c == 0:
                return NULL
            return Top('ptr', 'offset from NULL')
        return Top('ptr', 'gep on %r' % (base,))

    def signed_view(self, st, iv):
        """affine form of the *signed* value of iv if its sign is known (as a mathematical integer)"""
        lo, hi = st.store.bounds(iv.a)
        half = 1 << (iv.w - 1)
        if hi < half:
            return iv.a
        if lo >= half:
            return iv.a.sub(1 << iv.w)
        if iv.a.t:
            if st.store.entails_ge0(iv.a.neg().add(half - 1)):
                return iv.a
            if st.store.entails_ge0(iv.a.sub(half)):
                return iv.a.sub(1 << iv.w)
        return None

    # ---- integer arithmetic --------------------------------------------------------------
    def fit(self, st, w, a, origin='wrap', defn=None):
        """value a (mathematical) reduced into width w: exact if provably in range, else fresh symbol"""
        lo, hi = st.store.bounds(a)
        if lo >= 0 and hi <= mask(w):
            return Int(w, a)
        if a.t and st.store.entails_ge0(a) and st.store.entails_ge0(a.neg().add(mask(w))):
            return Int(w, a)
        if not a.t:
            return Int(w, Aff(a.c & mask(w)))
        return st.fresh_int(origin, w, defn=defn)

    def binop(self, st, ins, op, x, y):
        r = self.binop0(st, ins, op, x, y)
        if op in ('shl', 'lshr', 'or', 'and') and isinstance(x, Int) and isinstance(y, Int) and st.ctx.limits.get('slots'):
            sl = self.slot_binop(st, op, x, y, ins.ty[1])
            if sl is not None:
                r = self.with_slots(st, r, sl)
        return r

    def binop0(self, st, ins, op, x, y):
        w = ins.ty[1]
        if not isinstance(x, Int) or not isinstance(y, Int):
            return st.fresh_int('arith-on-nonint', w)
        S = st.store
        flags = ins.attrs.get('flags', ())
        if op == 'add':
            r = x.a.add(y.a)
            if 'nsw' in flags:
                self.ub_nsw(st, ins, x, y, 'add')
            res = self.fit(st, w, r, 'addw', ('addw', x.a, y.a, w))
            if res.a is not r and res.a.single() and st.syminfo.get(res.a.single()[0]) is not None and \
                    st.syminfo[res.a.single()[0]].defn is not None:
                # a modular sum never exceeds the mathematical sum and is at most 2^w below it
                st.store.assume_ge0(r.sub(res.a), propagate=False)
                st.store.assume_ge0(res.a.sub(r).add(1 << w), propagate=False)
            if res.a is not r and (1 << w) > 0:
                # y may be a "negative" constant (x + (2^w - k)) == x - k
                cy = S.const_of(y.a)
                if cy is not None and cy > (1 << (w - 1)):
                    k = (1 << w) - cy
                    alt = x.a.sub(k)
                    lo, hi = S.bounds(alt)
                    if lo >= 0 or S.entails_ge0(alt):
                        return Int(w, alt)
            return res
        if op == 'sub':
            r = x.a.sub(y.a)
            if 'nsw' in flags:
                self.ub_nsw(st, ins, x, y, 'sub')
            return self.fit(st, w, r, 'subw', ('subw', x.a, y.a, w))
        if op == 'mul':
            cx = S.const_of(x.a)
            cy = S.const_of(y.a)
            if cx is not None and cy is not None:
                return Int(w, Aff((cx * cy) & mask(w)))
            if cy is None and cx is not None:
                x, y, cx, cy = y, x, cy, cx
            if cy is not None:
                if 'nsw' in flags:
                    self.ub_nsw(st, ins, x, y, 'mul')
                return self.fit(st, w, x.a.mul(cy), 'mulw', ('mulw', x.a, cy, w))
            return st.fresh_int('mul', w)
        if op == 'shl':
            cy = S.const_of(y.a)
            self.ub_shift(st, ins, y, w)
            if cy is not None:
                if cy >= w:
                    return Int(w, Aff(0))
                return self.fit(st, w, x.a.mul(1 << cy), 'shlw')
            cx = S.const_of(x.a)
            lo, hi = S.bounds(y.a)
            if cx is not None and hi < w and hi - lo <= 8:
                # small set of results: 1 << k
                vals = [(cx << k) & mask(w) for k in range(lo, hi + 1)]
                r = st.fresh_int('shl', w, min(vals), max(vals), defn=('shlc', cx, y.a, w))
                return r
            return st.fresh_int('shl', w)
        if op in ('lshr', 'ashr'):
            cy = S.const_of(y.a)
            self.ub_shift(st, ins, y, w)
            cx = S.const_of(x.a)
            if cx is not None and cy is not None and op == 'lshr':
                return Int(w, Aff(cx >> cy))
            lo, hi = S.bounds(x.a)
            if cy is not None and op == 'lshr':
                return st.fresh_int('lshr', w, lo >> cy, hi >> cy)
            return st.fresh_int(op, w)
        if op == 'and':
            return self.bit_and(st, w, x, y)
        if op == 'or':
            cx = S.const_of(x.a)
            cy = S.const_of(y.a)
            if cx is not None and cy is not None:
                return Int(w, Aff(cx | cy))
            if cx == 0:
                return y
            if cy == 0:
                return x
            lx, hx = S.bounds(x.a)
            ly, hy = S.bounds(y.a)
            top = max(hx, hy)
            b = 1
            while b <= top:
                b <<= 1
            return st.fresh_int('or', w, max(lx, ly), min(b - 1, mask(w)))
        if op == 'xor':
            cx = S.const_of(x.a)
            cy = S.const_of(y.a)
            if cx is not None and cy is not None:
                return Int(w, Aff(cx ^ cy))
            if w == 1 and cy == 1 and x.pred is not None:
                r = st.fresh_int('not', 1)
                r.pred = ('not', x.pred)
                return r
            return st.fresh_int('xor', w)
        if op in ('udiv', 'sdiv', 'urem', 'srem'):
            cy = S.const_of(y.a)
            ly, hy = S.bounds(y.a)
            self.oblige(st, 'UB-DIV', ly > 0, ins, 'divisor non-zero')
            return st.fresh_int(op, w)
        raise AnalysisBroken('unmodelled binop %s' % op)

    def ub_nsw(self, st, ins, x, y, op):
        """nsw: the signed result must not wrap"""
        w = x.w
        sx = self.signed_view(st, x)
        sy = self.signed_view(st, y)
        ok = False
        if sx is not None and sy is not None:
            if op == 'add':
                r = sx.add(sy)
            elif op == 'sub':
                r = sx.sub(sy)
            else:
                cy = st.store.const_of(sy)
                r = sx.mul(cy) if cy is not None else None
            if r is not None:
                half = 1 << (w - 1)
                ok = st.store.entails_ge0(r.add(half)) and st.store.entails_ge0(r.neg().add(half - 1))
        self.oblige(st, 'UB-NSW', ok, ins, 'signed %s does not overflow (nsw)' % op)

    def ub_shift(self, st, ins, y, w):
        lo, hi = st.store.bounds(y.a)
        self.oblige(st, 'UB-SHIFT', hi < w, ins, 'shift amount < %d' % w)

    def bit_and(self, st, w, x, y):
        S = st.store
        cx = S.const_of(x.a)
        cy = S.const_of(y.a)
        if cx is not None and cy is not None:
            return Int(w, Aff(cx & cy))
        if cy is None:
            x, y, cx, cy = y, x, cy, cx
        if cy is None:
            lx, hx = S.bounds(x.a)
            ly, hy = S.bounds(y.a)
            return st.fresh_int('and', w, 0, min(hx, hy))
        m = cy
        if m == 0:
            return Int(w, Aff(0))
        lo, hi = S.bounds(x.a)
        if m == mask(w) or (hi <= m and (m & (m + 1)) == 0):
            return Int(w, x.a)
        sg = x.a.single()
        if sg and sg[1] == 1 and x.a.c == 0:
            s = sg[0]
            zeros, ones = st.kb.get(s, (0, 0))
            known = zeros | ones
            if (m & ~known) == 0:
                return Int(w, Aff(ones & m))
            key = (s, m)
            r = st.andmemo.get(key)
            if r is None:
                r = st.fresh('and', w, ones & m, min(m & ~zeros, hi), defn=('and', s, m))
                st.andmemo[key] = r
            return Int(w, Aff.sym(r))
        return st.fresh_int('and', w, 0, min(m, hi))

    # ---- byte-slot vectors (which input byte / which byte of which value sits in each byte of a word) -----------
    def slots(self, st, v):
        if not isinstance(v, Int) or v.w % 8 or v.w > 64:
            return None
        if v.sl is not None:
            return v.sl
        n = v.w // 8
        c = st.store.const_of(v.a)
        if c is not None:
            return tuple(('c', (c >> (8 * k)) & 0xff) for k in range(n))
        sg = v.a.single()
        if sg and sg[1] == 1 and v.a.c == 0:
            info = st.syminfo.get(sg[0])
            if n == 1:
                return (('b', sg[0]),)
            if info is not None and info.defn is None:
                return tuple(('v', sg[0], k) for k in range(n))
        return None

    def with_slots(self, st, res, sl):
        if sl is None or not isinstance(res, Int) or all(x is None for x in sl):
            return res
        return Int(res.w, res.a, res.pred, tuple(sl))

    def slot_binop(self, st, op, x, y, w):
        if not st.ctx.limits.get('slots'):
            return None
        n = w // 8
        if w % 8 or w > 64:
            return None
        sx = self.slots(st, x)
        S = st.store
        if op in ('shl', 'lshr'):
            k = S.const_of(y.a) if isinstance(y, Int) else None
            if sx is None or k is None or k % 8:
                return None
            k //= 8
            if op == 'shl':
                return tuple([('c', 0)] * min(k, n) + list(sx[:max(n - k, 0)]))
            return tuple(list(sx[k:]) + [('c', 0)] * min(k, n))
        sy = self.slots(st, y)
        if sx is None or sy is None:
            return None
        out = []
        for a, b in zip(sx, sy):
            if op == 'or':
                if a == ('c', 0):
                    out.append(b)
                elif b == ('c', 0):
                    out.append(a)
                elif a is not None and b is not None and a[0] == 'c' and b[0] == 'c':
                    out.append(('c', a[1] | b[1]))
                elif a == b:
                    out.append(a)
                else:
                    out.append(None)
            elif op == 'and':
                if a is not None and b is not None and a[0] == 'c' and b[0] == 'c':
                    out.append(('c', a[1] & b[1]))
                elif b == ('c', 0xff):
                    out.append(a)
                elif a == ('c', 0xff):
                    out.append(b)
                elif a == ('c', 0) or b == ('c', 0):
                    out.append(('c', 0))
                else:
                    out.append(None)
            else:
                return None
        return tuple(out)

    # ---- casts ----------------------------------------------------------------------------
    def cast(self, st, ins, op, x):
        r = self.cast0(st, ins, op, x)
        if op in ('zext', 'trunc') and isinstance(x, Int) and isinstance(r, Int) and st.ctx.limits.get('slots') and r.w % 8 == 0:
            sx = self.slots(st, x)
            if sx is not None:
                n = r.w // 8
                sl = tuple(list(sx[:n]) + [('c', 0)] * max(0, n - len(sx)))
                r = self.with_slots(st, r, sl)
        return r

    def cast0(self, st, ins, op, x):
        tw = ins.ty[1] if ins.ty[0] == 'int' else None
        if op == 'bitcast':
            return x
        if op in ('ptrtoint', 'inttoptr'):
            if op == 'inttoptr':
                return Top('ptr', 'inttoptr')
            return st.fresh_int('ptrtoint', tw)
        if op in ('sitofp', 'uitofp', 'fpext', 'fptrunc'):
            return Top('float', op)
        if op in ('fptosi', 'fptoui'):
            return st.fresh_int(op, tw)
        if not isinstance(x, Int):
            return st.fresh_int(op + '-nonint', tw)
        if op == 'zext':
            return Int(tw, x.a, x.pred)
        if op == 'trunc':
            lo, hi = st.store.bounds(x.a)
            if hi <= mask(tw):
                return Int(tw, x.a, x.pred)
            c = st.store.const_of(x.a)
            if c is not None:
                return Int(tw, Aff(c & mask(tw)))
            r = st.fresh_int('trunc', tw, defn=('trunc', x.a, x.w, tw))
            return r
        if op == 'sext':
            sv = self.signed_view(st, x)
            if sv is None:
                return st.fresh_int('sext', tw, defn=('sext', x.a, x.w, tw))
            lo, hi = st.store.bounds(sv)
            if lo >= 0:
                return Int(tw, sv)
            return Int(tw, sv.add(1 << tw))
        raise AnalysisBroken('unmodelled cast %s' % op)

    # ---- comparisons ----------------------------------------------------------------------------
    def icmp(self, st, pred, x, y):
        """-> Int(1) constant if decided, else fresh 0/1 with pred attached"""
        d = self.decide_cmp(st, pred, x, y)
        if d is not None:
            return Int(1, Aff(1 if d else 0))
        r = st.fresh_int('cmp', 1)
        r.pred = ('cmp', pred, x, y)
        return r

    def decide_cmp(self, st, pred, x, y):
        S = st.store
        if isinstance(x, Int) and isinstance(y, Int):
            if pred in ('slt', 'sle', 'sgt', 'sge'):
                sx = self.signed_view(st, x)
                sy = self.signed_view(st, y)
                if sx is None or sy is None:
                    return None
                xa, ya = sx, sy
                pred = 'u' + pred[1:]
            else:
                xa, ya = x.a, y.a
            d = xa.sub(ya)
            if pred == 'eq':
                if S.entails_eq0(d):
                    return True
                if S.entails_ne0(d):
                    return False
                return None
            if pred == 'ne':
                if S.entails_eq0(d):
                    return False
                if S.entails_ne0(d):
                    return True
                return None
            if pred == 'ugt':
                if S.entails_ge0(d.sub(1)):
                    return True
                if S.entails_ge0(d.neg()):
                    return False
                return None
            if pred == 'uge':
                if S.entails_ge0(d):
                    return True
                if S.entails_ge0(d.neg().sub(1)):
                    return False
                return None
            if pred == 'ult':
                if S.entails_ge0(d.neg().sub(1)):
                    return True
                if S.entails_ge0(d):
                    return False
                return None
            if pred == 'ule':
                if S.entails_ge0(d.neg()):
                    return True
                if S.entails_ge0(d.sub(1)):
                    return False
                return None
            return None
        # pointer comparisons
        if pred in ('eq', 'ne'):
            r = self.ptr_eq(st, x, y)
            if r is None:
                return None
            return r if pred == 'eq' else (not r)
        return None

    def ptr_eq(self, st, x, y):
        nx = isinstance(x, Null)
        ny = isinstance(y, Null)
        if nx and ny:
            return True
        if (nx and isinstance(y, (Ptr, Fn))) or (ny and isinstance(x, (Ptr, Fn))):
            return False
        if isinstance(x, Ptr) and isinstance(y, Ptr):
            if x.region != y.region:
                return False
            d = x.off.sub(y.off)
            if st.store.entails_eq0(d):
                return True
            if st.store.entails_ne0(d):
                return False
            return None
        if isinstance(x, Fn) and isinstance(y, Fn):
            return x.name == y.name
        return None

    # ---- assume (branch refinement); returns list of refined states (0, 1 or 2) --------------------
    def assume(self, st, v, truth):
        """refine state st (consumed) with: value v (i1) is `truth`"""
        if not isinstance(v, Int):
            return [st]
        c = st.store.const_of(v.a)
        if c is not None:
            return [st] if bool(c) == truth else []
        outs = [st]
        if v.pred is not None:
            outs = self.assume_pred(st, v.pred, truth)
        res = []
        for s in outs:
            if s.store.assume_eq0(v.a.sub(1 if truth else 0)):
                res.append(s)
        return res

    def assume_pred(self, st, p, truth):
        if p[0] == 'not':
            return self.assume_pred(st, p[1], not truth)
        if p[0] == 'cmp':
            return self.assume_cmp(st, p[1], p[2], p[3], truth)
        return [st]

    NEG = {'eq': 'ne', 'ne': 'eq', 'ugt': 'ule', 'ule': 'ugt', 'uge': 'ult', 'ult': 'uge',
           'sgt': 'sle', 'sle': 'sgt', 'sge': 'slt', 'slt': 'sge'}

    def assume_cmp(self, st, pred, x, y, truth):
        if not truth:
            pred = self.NEG[pred]
        if isinstance(x, Int) and isinstance(y, Int):
            st.ctrl = st.ctrl | frozenset(x.a.syms()) | frozenset(y.a.syms())
            if pred[0] == 's':
                outs = []
                for (s2, xa, ya) in self.sign_split(st, x, y):
                    outs += self.assume_lin(s2, 'u' + pred[1:], xa, ya, x, y)
                return outs
            if pred[0] == 'u':
                # a wrapped sum compared with a constant (the `x + bias < limit` range idiom): decide wrap / no wrap first
                outs = []
                for s2 in self.wrap_split(st, x, y):
                    outs += self.assume_lin(s2, pred, x.a, y.a, x, y)
                return outs
            return self.assume_lin(st, pred, x.a, y.a, x, y)
        # pointers
        r = self.ptr_eq(st, x, y)
        if r is not None:
            want = (pred == 'eq')
            return [st] if r == want else []
        if isinstance(x, Ptr) and isinstance(y, Ptr) and x.region == y.region:
            d = x.off.sub(y.off)
            ok = st.store.assume_eq0(d) if pred == 'eq' else st.store.assume_ne0(d)
            return [st] if ok else []
        return [st]

    def wrap_split(self, st, x, y):
        """if one operand is c = a +w k (k constant) and the other a constant, split st into the no-wrap case (c = a + k)
        and the wrap case (c = a + k - 2^w); otherwise st unchanged"""
        for (v, o) in ((x, y), (y, x)):
            if not o.a.is_const():
                continue
            sg = v.a.single()
            if not sg or sg[1] != 1 or v.a.c != 0:
                continue
            info = st.syminfo.get(sg[0])
            if info is None or info.defn is None or info.defn[0] != 'addw':
                continue
            _, a, b, w = info.defn
            if not (a.is_const() or b.is_const()):
                continue
            S = st.store
            tot = a.add(b)
            if not all(z in S.ivl for z in tot.t):
                continue
            lo, hi = S.bounds(tot)
            if hi < (1 << w) or lo >= (1 << w):
                continue          # already decided
            c = Aff.sym(sg[0])
            s1 = st
            s2 = st.copy()
            out = []
            if s1.store.assume_ge0(tot.neg().add((1 << w) - 1)) and s1.store.assume_eq0(c.sub(tot)):
                out.append(s1)
            if s2.store.assume_ge0(tot.sub(1 << w)) and s2.store.assume_eq0(c.sub(tot).add(1 << w)):
                out.append(s2)
            return out
        return [st]

    def sign_split(self, st, x, y):
        """split st so that both x and y have known sign; yields (state, signed aff x, signed aff y)"""
        work = [st]
        for v in (x, y):
            nxt = []
            for s in work:
                if self.signed_view(s, v) is not None:
                    nxt.append(s)
                    continue
                half = 1 << (v.w - 1)
                s2 = s.copy()
                if s.ctx.limits.get('sig'):
                    # step-table extraction: which sign piece a path belongs to is part of its decision signature
                    s.tags['_piece'] = s.tags.get('_piece', '') + '+'
                    s2.tags['_piece'] = s2.tags.get('_piece', '') + '-'
                if s.store.assume_ge0(v.a.neg().add(half - 1)):
                    nxt.append(s)
                if s2.store.assume_ge0(v.a.sub(half)):
                    nxt.append(s2)
            work = nxt
        out = []
        for s in work:
            out.append((s, self.signed_view(s, x), self.signed_view(s, y)))
        return out

    def assume_lin(self, st, pred, xa, ya, x=None, y=None):
        S = st.store
        d = xa.sub(ya)
        ok = True
        if pred == 'eq':
            ok = S.assume_eq0(d)
        elif pred == 'ne':
            ok = S.assume_ne0(d)
        elif pred == 'ugt':
            ok = S.assume_ge0(d.sub(1))
        elif pred == 'uge':
            ok = S.assume_ge0(d)
        elif pred == 'ult':
            ok = S.assume_ge0(d.neg().sub(1))
        elif pred == 'ule':
            ok = S.assume_ge0(d.neg())
        if not ok:
            return []
        # wrap definitions: learning c >= a (or c >= b) for c = a +w b means no wrap happened
        if pred in ('uge', 'ugt', 'ult', 'ule') and x is not None:
            self.learn_wrap(st, pred, xa, ya)
            if S.bottom:
                return []
        self.sync_bits(st, set(d.syms()))
        if S.bottom:
            return []
        # relational feasibility (FM) only when the new fact is relational
        if len(d.t) >= 2 and pred != 'ne':
            if S._fm_infeasible(Aff(0)):
                return []
        return [st]

    def learn_wrap(self, st, pred, xa, ya):
        for (ca, oa, ge) in ((xa, ya, pred in ('uge', 'ugt')), (ya, xa, pred in ('ule', 'ult'))):
            sg = ca.single()
            if not sg or sg[1] != 1 or ca.c != 0:
                continue
            info = st.syminfo.get(sg[0])
            if info is None or info.defn is None or info.defn[0] != 'addw':
                continue
            _, a, b, w = info.defn
            if oa == a or oa == b:
                if ge:
                    st.store.assume_eq0(ca.sub(a).sub(b))
                    # make what is known about c explicit in terms of a + b (joins rewrite single constraints only)
                    csym = sg[0]
                    ab = a.add(b)
                    for e in list(st.store.rel):
                        if csym in e.t and len(e.t) <= 3:
                            st.store.assume_ge0(e.subst({csym: ab}), propagate=False)
                else:
                    # strictly below an operand: wrapped exactly once
                    if (pred in ('ult', 'ugt')):
                        st.store.assume_eq0(ca.sub(a).sub(b).add(1 << w))

    def sync_bits(self, st, syms):
        """reduced product between intervals of and-results and known bits of their sources"""
        if not st.andmemo:
            return
        S = st.store
        for (src, m), r in list(st.andmemo.items()):
            if r not in syms and src not in syms:
                continue
            lo, hi = S.ivl[r]
            zeros, ones = st.kb.get(src, (0, 0))
            nz, no = zeros, ones
            if hi == 0:
                nz |= m
            if lo >= 1 and (m & (m - 1)) == 0:
                no |= m
            # source constant -> result constant
            a, b = S.ivl[src]
            if a == b:
                v = a & m
                if not S.assume_eq0(Aff(-v, {r: 1})):
                    return
                continue
            if (nz, no) != (zeros, ones):
                if nz & no:
                    S.bottom = True
                    return
                st.kb[src] = (nz, no)
                # propagate to all other masks of the same source
                for (src2, m2), r2 in st.andmemo.items():
                    if src2 != src:
                        continue
                    l2, h2 = S.ivl[r2]
                    nl, nh = max(l2, no & m2), min(h2, m2 & ~nz)
                    if nl > nh:
                        S.bottom = True
                        return
                    S.ivl[r2] = (nl, nh)
