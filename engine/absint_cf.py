"""absint_cf: control flow of absint - blocks, path partitioning, calls in
context, loops closed by join + widening with Houdini-filtered candidate
invariants (DESIGN.md 3.3)."""
from .lin import Aff, Store
from .absval import Int, Ptr, Null, Fn, Top, Zero, NULL, ZERO, veq, Region, State, Frame, PathLink
from .absint import Ops, Ctx, mask
from .absmem import Mem
from .common import AnalysisBroken

MAX_LOOP_ROUNDS = 12


class Hooks:
    """default no-op hooks; properties subclass this"""

    def __init__(self):
        self.log = []

    def obligation(self, st, kind, ok, ins, what, detail):
        self.log.append(('ob', kind, ok, ins, what, detail, st if not ok else None))

    def on_load(self, st, r, off, size, ins):
        pass

    def on_store(self, st, r, off, size, val, ins):
        pass

    def on_bad_store(self, st, ptr, val, ins):
        pass

    def on_memset(self, st, r, off, length, byte, ins):
        pass

    def on_copy(self, st, rd, doff, rs, soff, length, ins):
        pass

    def on_forget(self, st, r, off, size, val, ins):
        pass

    def default_cell(self, st, r, off, size, ty, havoc, ins):
        return None

    def at_backedge(self, st, fn, head):
        pass

    def on_call(self, st, name, args, ins):
        pass

    def before_join(self, st, fn, why):
        pass

    def on_return(self, st, fn, ret):
        pass

    def on_loop_entry(self, fn, head, states):
        pass

    def on_step_backs(self, fn, head, backs):
        pass

    def stub_call(self, st, name, args, ins):
        return None

    def on_loop(self, fn, head, info):
        self.log.append(('loop', fn.name, head, info))

    def partition_extra(self, st):
        return ()

    def compact(self, fn):
        return False


class Interp:
    def __init__(self, mod, hooks=None):
        self.hooks = hooks or Hooks()
        self.ctx = Ctx(mod, self.hooks)
        self.mod = mod
        self.ops = Ops(self.ctx)
        self.mem = Mem(self.ops)
        from . import externals
        self.ext = externals.Externals(self)
        self.fninfo = {}

    # ---- helpers ------------------------------------------------------------------------
    def new_state(self):
        return State(self.ctx)

    def info(self, fn):
        fi = self.fninfo.get(fn.name)
        if fi is None:
            rpo = fn.rpo()
            loops = {l['head']: l for l in fn.loops()}
            # nesting: for now require disjoint or nested loops; record for each block the innermost loop head
            fi = {'rpo': rpo, 'idx': {b: i for i, b in enumerate(rpo)}, 'loops': loops}
            # names defined per block
            defs_in = {}
            for bn in fn.order:
                defs_in[bn] = [i.res for i in fn.blocks[bn].instrs if i.res is not None]
            fi['defs_in'] = defs_in
            self.fninfo[fn.name] = fi
        return fi

    # ---- function execution ------------------------------------------------------------------
    def call_function(self, st, fn, args, callsite):
        """run fn in context; st is consumed. -> list of (state, retval) with the frame popped"""
        self.ctx.stats['calls'] += 1
        depth = len(st.frames)
        if depth > 24:
            raise AnalysisBroken('call depth exceeded (recursion?) at %s' % fn.name)
        fr = Frame(fn, callsite, depth)
        for (pty, pname), a in zip(fn.params, args):
            fr.env[pname] = a
        st.frames = st.frames + [fr]
        fi = self.info(fn)
        pending = {fn.order[0]: [st]}
        rets = []
        self.process(fn, fi, fi['rpo'], pending, rets, None)
        out = []
        single = len(rets) == 1
        prefix = 'L%d.%s.' % (depth, fn.name)
        for (s, rv) in rets:
            for rn in [x for x in s.mem if x.startswith(prefix)]:
                del s.mem[rn]
                s.owned.discard(rn)
                s.regions.pop(rn, None)
                s.tags.pop(('default', rn), None)
                s.tags.pop(('havoc', rn), None)
            for tk in [t for t in s.tags if isinstance(t, tuple) and t and t[0] in ('loophead', 'fw') and t[1] == fn.name]:
                del s.tags[tk]
            self.hooks.on_return(s, fn, rv)
            if isinstance(rv, Ptr) and rv.region.startswith(prefix):
                rv = Top('ptr', 'dangling pointer to local of %s' % fn.name)
            # the caller's frame object is shared by all exit disjuncts: give each its own copy
            s.frames = s.frames[:-2] + [s.frames[-2] if single else s.frames[-2].copy()]
            out.append((s, rv))
        if self.hooks.compact(fn) and len(out) > 1:
            out = self.compact_exits(fn, out)
        return out

    def process(self, fn, fi, order, pending, rets, loopctx):
        """process blocks of `order` (RPO).  loopctx = (loop, backs, outs) when inside a loop body"""
        loops = fi['loops']
        skip = set()
        for bn in order:
            if bn in skip:
                continue
            if bn in loops and (loopctx is None or loopctx[0]['head'] != bn):
                lp = loops[bn]
                entry = pending.pop(bn, [])
                if not entry:
                    skip |= lp['body']
                    continue
                outs = self.run_loop(fn, fi, lp, entry, rets)
                for tgt, sts in outs.items():
                    if loopctx is not None and tgt == loopctx[0]['head']:
                        loopctx[1].extend(sts)
                    elif loopctx is not None and tgt not in loopctx[0]['body']:
                        loopctx[2].setdefault(tgt, []).extend(sts)
                    else:
                        pending.setdefault(tgt, []).extend(sts)
                skip |= lp['body']
                continue
            sts = pending.pop(bn, None)
            if not sts:
                continue
            sts = self.reduce(fn, bn, sts)
            blk = fn.blocks[bn]
            for st in sts:
                self.exec_block(fn, blk, st, pending, rets, loopctx)

    def reduce(self, fn, bn, sts):
        """dedupe identical disjuncts; enforce the cap"""
        if len(sts) <= 1:
            return sts
        import os
        if os.environ.get('ABSINT_TRACE') and len(sts) >= int(os.environ['ABSINT_TRACE']):
            print('  [trace] %s:%s (line %d) %d states' % (fn.name, bn, fn.blocks[bn].instrs[0].line, len(sts)))
        cap = self.ctx.limits['cap']
        if len(sts) > cap:
            groups = {}
            for s in sts:
                groups.setdefault(self.group_key(s, fn, None), []).append(s)
            out = []
            for k, g in groups.items():
                if len(g) == 1:
                    out.append(g[0])
                else:
                    self.ctx.stats['joins'] += 1
                    out.append(self.generalise(fn, g, None, 'cap@%s' % bn))
            return out
        return sts

    # ---- block execution ------------------------------------------------------------------------
    def exec_block(self, fn, blk, st, pending, rets, loopctx):
        work = [(st, 0)]
        instrs = blk.instrs
        n = len(instrs)
        stats = self.ctx.stats
        while work:
            st, i = work.pop()
            dead = False
            while i < n - 1:
                ins = instrs[i]
                if ins.op == 'phi':
                    i += 1
                    continue
                stats['instr'] += 1
                res = self.exec_instr(st, ins)
                i += 1
                if res is None:
                    continue
                # forked: list of states (already updated with the result)
                if not res:
                    dead = True
                    break
                if len(res) > 1 and ins.op == 'load' and self.ctx.limits.get('sig'):
                    for k_, s_ in enumerate(res):
                        self._sig(s_, fn, blk, 'alt%d' % k_, ins.idx)
                for s2 in res[1:]:
                    work.append((s2, i))
                st = res[0]
            if dead:
                continue
            self.exec_term(fn, blk, st, instrs[-1], pending, rets, loopctx)

    def flow_to(self, fn, frm, to, st, pending, loopctx):
        """propagate st along edge frm->to, evaluating to's phis"""
        tb = fn.blocks[to]
        first = tb.instrs[0]
        if first.op == 'phi':
            vals = []
            for ins in tb.instrs:
                if ins.op != 'phi':
                    break
                for (v, lb) in ins.attrs['incoming']:
                    if lb == frm:
                        vals.append((ins.res, self.ops.operand(st, ins.ty, v)))
                        break
                else:
                    raise AnalysisBroken('phi without incoming for %s in %s' % (frm, fn.name))
            env = st.top.env
            for name, v in vals:
                env[name] = v
        self.ctx.stats['states'] += 1
        if loopctx is not None:
            lp, backs, outs = loopctx
            if to == lp['head']:
                backs.append(st)
                return
            if to not in lp['body']:
                outs.setdefault(to, []).append(st)
                return
        pending.setdefault(to, []).append(st)

    def exec_term(self, fn, blk, st, ins, pending, rets, loopctx):
        op = ins.op
        self.ctx.stats['instr'] += 1
        if op == 'br':
            tg = ins.attrs['targets']
            if len(tg) == 1:
                self.flow_to(fn, blk.name, tg[0], st, pending, loopctx)
                return
            c = self.ops.operand(st, ins.ops[0][0], ins.ops[0][1])
            cc = st.store.const_of(c.a) if isinstance(c, Int) else None
            if cc is not None:
                self.flow_to(fn, blk.name, tg[0] if cc else tg[1], st, pending, loopctx)
                return
            sig = self.ctx.limits.get('sig')
            if sig:
                st.tags.pop('_piece', None)
            s2 = st.copy()
            for s in self.ops.assume(st, c, True):
                s.decide((fn.name, ins.line, 'true'))
                if sig:
                    self._sig(s, fn, blk, 'T', cond=c)
                self.flow_to(fn, blk.name, tg[0], s, pending, loopctx)
            c2 = self.ops.operand(s2, ins.ops[0][0], ins.ops[0][1])
            for s in self.ops.assume(s2, c2, False):
                s.decide((fn.name, ins.line, 'false'))
                if sig:
                    self._sig(s, fn, blk, 'F', cond=c2)
                self.flow_to(fn, blk.name, tg[1], s, pending, loopctx)
            return
        if op == 'switch':
            v = self.ops.operand(st, ins.ops[0][0], ins.ops[0][1])
            cases = ins.attrs['cases']
            cv = st.store.const_of(v.a)
            if cv is not None:
                for (k, lb) in cases:
                    if k == cv:
                        self.flow_to(fn, blk.name, lb, st, pending, loopctx)
                        return
                self.flow_to(fn, blk.name, ins.attrs['default'], st, pending, loopctx)
                return
            st.ctrl = st.ctrl | frozenset(v.a.syms())
            lo, hi = st.store.bounds(v.a)
            rest = st
            for (k, lb) in cases:
                if k < lo or k > hi:
                    continue
                s = rest.copy()
                outs = self.ops.assume_lin(s, 'eq', v.a, Aff(k))
                for s1 in outs:
                    s1.decide((fn.name, ins.line, 'case %d' % k))
                    if self.ctx.limits.get('sig'):
                        self._sig(s1, fn, blk, 'c%d' % k, cond=v)
                    self.flow_to(fn, blk.name, lb, s1, pending, loopctx)
                r = self.ops.assume_lin(rest, 'ne', v.a, Aff(k))
                if not r:
                    rest = None
                    break
                rest = r[0]
            if rest is not None:
                rest.decide((fn.name, ins.line, 'default'))
                if self.ctx.limits.get('sig'):
                    self._sig(rest, fn, blk, 'dflt', cond=v)
                self.flow_to(fn, blk.name, ins.attrs['default'], rest, pending, loopctx)
            return
        if op == 'ret':
            rv = None
            if ins.ops:
                rv = self.ops.operand(st, ins.ops[0][0], ins.ops[0][1])
            rets.append((st, rv))
            return
        if op == 'unreachable':
            return
        raise AnalysisBroken('unmodelled terminator %s in %s' % (op, fn.name))

    def _sig(self, st, fn, blk, d, idx=None, cond=None):
        """decision signature of a path: (call-site chain, function, block, direction) per undecided branch taken"""
        chain = tuple((fr.fn.name, fr.callsite.loc() if fr.callsite is not None else '') for fr in st.frames[1:])
        deps = None
        if cond is not None:
            # which symbols the decided condition is about (by origin), through comparison definitions
            deps = tuple(sorted(self._cond_origins(st, cond)))
        st.tags['sig'] = st.tags.get('sig', ()) + ((chain, fn.name, blk.name if idx is None else '%s#%d' % (blk.name, idx),
                                                    (d, st.tags.pop('_piece', None)), deps),)

    def _cond_origins(self, st, v, depth=0):
        out = set()
        if not isinstance(v, Int) or depth > 6:
            return {'?'}
        if v.pred is not None:
            p = v.pred
            while p is not None and p[0] == 'not':
                p = p[1]
            if p is not None and p[0] == 'cmp':
                for x in (p[2], p[3]):
                    out |= self._cond_origins(st, x, depth + 1) if isinstance(x, Int) else {'?'}
                return out
        for s_ in v.a.t:
            info = st.syminfo.get(s_)
            if info is None:
                out.add('?')
            elif info.defn is not None and info.defn[0] in ('trunc', 'sext', 'zext') and hasattr(info.defn[1], 't'):
                for z in info.defn[1].t:
                    i2 = st.syminfo.get(z)
                    out.add(i2.origin if i2 is not None else '?')
            else:
                out.add(info.origin)
        return out

    # ---- instructions ------------------------------------------------------------------------------
    def exec_instr(self, st, ins):
        """execute ins on st in place; return None normally, or a list of forked states"""
        op = ins.op
        ops = self.ops
        if op == 'load':
            p = ops.operand(st, ins.ops[0][0], ins.ops[0][1])
            v = self.mem.load(st, p, ins.ty, ins)
            if isinstance(v, list):
                out = []
                for (s, val) in v:
                    s.setv(ins.res, val)
                    out.append(s)
                return out
            st.setv(ins.res, v)
            return None
        if op == 'store':
            v = ops.operand(st, ins.ops[0][0], ins.ops[0][1])
            p = ops.operand(st, ins.ops[1][0], ins.ops[1][1])
            self.mem.store(st, p, v, ins.ops[0][0], ins)
            return None
        if op == 'getelementptr':
            base = ops.operand(st, ins.ops[0][0], ins.ops[0][1])
            idx = [ops.operand(st, t, v) for (t, v) in ins.ops[1:]]
            st.setv(ins.res, ops.gep(st, ins.attrs['srcty'], base, idx, ins))
            return None
        if op == 'icmp':
            x = ops.operand(st, ins.ops[0][0], ins.ops[0][1])
            y = ops.operand(st, ins.ops[1][0], ins.ops[1][1])
            st.setv(ins.res, ops.icmp(st, ins.attrs['pred'], x, y))
            return None
        if op in ('zext', 'sext', 'trunc', 'bitcast', 'ptrtoint', 'inttoptr', 'sitofp', 'uitofp', 'fptosi', 'fptoui',
                  'fpext', 'fptrunc'):
            x = ops.operand(st, ins.ops[0][0], ins.ops[0][1])
            st.setv(ins.res, ops.cast(st, ins, op, x))
            return None
        if op in ('add', 'sub', 'mul', 'and', 'or', 'xor', 'shl', 'lshr', 'ashr', 'udiv', 'sdiv', 'urem', 'srem'):
            x = ops.operand(st, ins.ops[0][0], ins.ops[0][1])
            y = ops.operand(st, ins.ops[1][0], ins.ops[1][1])
            st.setv(ins.res, ops.binop(st, ins, op, x, y))
            return None
        if op == 'alloca':
            fr = st.top
            rname = 'L%d.%s.%s' % (fr.depth, fr.fn.name, ins.res)
            size = self.mod.sizeof(ins.attrs['aty'])
            cnt = ins.attrs['count']
            if cnt is not None:
                cv = ops.operand(st, cnt[0], cnt[1])
                c = st.store.const_of(cv.a)
                if c is None:
                    raise AnalysisBroken('variable-size alloca in %s' % fr.fn.name)
                size *= c
            r = Region(rname, 'obj', Aff(size))
            st.add_region(r)
            st.mem[rname] = {}
            st.owned.add(rname)
            st.tags[('default', rname)] = 'unknown'
            st.tags.pop(('havoc', rname), None)
            st.setv(ins.res, Ptr(rname, Aff(0)))
            return None
        if op == 'select':
            c = ops.operand(st, ins.ops[0][0], ins.ops[0][1])
            a = ops.operand(st, ins.ops[1][0], ins.ops[1][1])
            b = ops.operand(st, ins.ops[2][0], ins.ops[2][1])
            cc = st.store.const_of(c.a) if isinstance(c, Int) else None
            if cc is not None:
                st.setv(ins.res, a if cc else b)
                return None
            sig = self.ctx.limits.get('sig')
            if sig:
                st.tags.pop('_piece', None)
            s2 = st.copy()
            out = []
            for s in ops.assume(st, c, True):
                s.setv(ins.res, a)
                if sig:
                    self._sig(s, ins.fn, ins.block if hasattr(ins.block, 'name') else ins.fn.blocks[ins.block], 'T', ins.idx)
                out.append(s)
            for s in ops.assume(s2, ops.operand(s2, ins.ops[0][0], ins.ops[0][1]), False):
                s.setv(ins.res, b)
                if sig:
                    self._sig(s, ins.fn, ins.block if hasattr(ins.block, 'name') else ins.fn.blocks[ins.block], 'F', ins.idx)
                out.append(s)
            return out
        if op == 'call':
            return self.exec_call(st, ins)
        if op in ('fadd', 'fsub', 'fmul', 'fdiv', 'frem', 'fneg', 'fcmp'):
            if ins.ty == ('int', 1):
                st.setv(ins.res, st.fresh_int('fcmp', 1))
            else:
                st.setv(ins.res, Top('float', op))
            return None
        raise AnalysisBroken('unmodelled IR opcode %s in %s (%s)' % (op, st.top.fn.name, ins.loc()))

    def exec_call(self, st, ins):
        ops = self.ops
        cal = ins.attrs['callee']
        if cal[0] == 'global':
            name = cal[1]
        else:
            fv = ops.operand(st, ('ptr', ('int', 8)), cal)
            if isinstance(fv, Fn):
                name = fv.name
            else:
                ops.oblige(st, 'CALL-IND', False, ins, 'indirect call through %r' % (fv,))
                if ins.res is not None:
                    st.setv(ins.res, self.mem.unknown(st, ins.ty, 'indirect-call'))
                return None
        args = [ops.operand(st, t, v) for (t, v) in ins.ops]
        self.hooks.on_call(st, name, args, ins)
        fn = self.mod.functions.get(name)
        res = self.hooks.stub_call(st, name, args, ins)      # a check may replace a callee by its own summary
        if res is not None:
            pass
        elif fn is None:
            res = self.ext.call(st, name, args, ins)
        else:
            res = self.call_function(st, fn, args, ins)
        out = []
        for (s, rv) in res:
            if ins.res is not None:
                if rv is None:
                    rv = self.mem.unknown(s, ins.ty, 'void-result')
                s.setv(ins.res, rv)
            out.append(s)
        return out

    # ---- loops -----------------------------------------------------------------------------------------
    def run_loop(self, fn, fi, lp, entry, rets):
        import os
        head = lp['head']
        body_order = [b for b in fi['rpo'] if b in lp['body']]
        log = self.hooks.log
        self.hooks.on_loop_entry(fn, head, entry)
        if fn.name in self.ctx.limits.get('step', ()):
            return self.run_loop_step(fn, fi, lp, entry, rets)
        if fn.name in self.ctx.limits.get('unroll', ()):
            return self.run_loop_unrolled(fn, fi, lp, entry, rets)
        heads = self.group_and_join(fn, lp, entry, 'entry')
        results = {}      # id(head state) -> (head, backs, outs, logsegment)
        rounds = 0
        while True:
            rounds += 1
            self.ctx.stats['loop_rounds'] += 1
            if rounds > MAX_LOOP_ROUNDS:
                raise AnalysisBroken('loop at %s:%s did not stabilise in %d rounds' % (fn.name, head, MAX_LOOP_ROUNDS))
            newres = {}
            for h in heads:
                r = results.get(id(h))
                if r is not None and r[0] is not h:
                    r = None
                if r is None:
                    mark = len(log)
                    backs = []
                    outs = {}
                    hc = h.copy()
                    hc.tags[('loophead', fn.name, head)] = self.snapshot_places(hc, fn, lp)
                    hc.tags.pop(('fw', fn.name, head), None)
                    self.process(fn, fi, body_order, {head: [hc]}, rets, (lp, backs, outs))
                    for b in backs:
                        self.hooks.at_backedge(b, fn, head)
                    seg = log[mark:]
                    del log[mark:]
                    r = (h, backs, outs, seg)
                newres[id(h)] = r
            results = newres
            allbacks = []
            for h in heads:
                allbacks.extend(results[id(h)][1])
            self._leq_dbg = bool(os.environ.get('ABSINT_LEQ')) and rounds >= 8 and fn.name == '_advance_parsing'
            uncovered = [b for b in allbacks if not self.covered(fn, lp, b, heads)]
            self._leq_dbg = False
            if os.environ.get('ABSINT_LOOPS'):
                print('  [loop] %s:%s round %d heads=%d backs=%d uncovered=%d instr=%d' % (
                    fn.name, head, rounds, len(heads), len(allbacks), len(uncovered), self.ctx.stats['instr']))
                if os.environ.get('ABSINT_LOOPS') == '2':
                    ks = [self.group_key(h, fn, lp) for h in heads]
                    base = ks[0]
                    for k in ks:
                        print('     head key diff:', [x for x in k if x not in base][:12])
            if not uncovered and os.environ.get('ABSINT_HEADS') and os.environ['ABSINT_HEADS'] not in ('1', fn.name):
                pass
            elif not uncovered and os.environ.get('ABSINT_HEADS') == fn.name:
                for h in heads[:8]:
                    print('   [head] %s:%s last=%r' % (fn.name, head, h.pathlist()[-1:]))
                    for n_, v_ in sorted(h.top.env.items()):
                        if isinstance(v_, (Int, Ptr)) and (not isinstance(v_, Int) or v_.a.t):
                            print('        %%%s = %r %s' % (n_, v_, h.store.bounds(v_.a) if isinstance(v_, Int) else ''))
                    for e in h.store.rel[-40:]:
                        print('        rel %r >= 0' % e)
            elif not uncovered and os.environ.get('ABSINT_HEADS'):
                for h in heads:
                    print('   [head] %s:%s path=%r' % (fn.name, head, h.pathlist()[-1:]))
                    for rn in ('P',):
                        for k, (o, sz, v) in sorted(h.mem.get(rn, {}).items()):
                            print('        %s%r = %r %s' % (rn, k[0][0], v, h.store.bounds(v.a) if isinstance(v, Int) else ''))
                    hs = {p[1] for p in h.tags.get('_places', ())}
                    for e in h.store.rel:
                        if any(x in hs for x in e.t):
                            print('        rel %r >= 0' % e)
            if not uncovered:
                outs = {}
                for h in heads:
                    _, hb, ho, seg = results[id(h)]
                    log.extend(seg)
                    for tgt, sts in ho.items():
                        outs.setdefault(tgt, []).extend(sts)
                self.hooks.on_loop(fn, head, {'rounds': rounds, 'heads': len(heads), 'backedges': len(allbacks),
                                              'exits': sum(len(v) for v in outs.values()),
                                              'backs': allbacks, 'head_states': heads})
                return outs
            heads = self.group_and_join(fn, lp, heads + uncovered, 'widen', widen=True, prev=heads)
            if os.environ.get('ABSINT_KEYDBG') and rounds >= 6:
                u = uncovered[0]
                ku = self.group_key(u, fn, lp)
                for h in heads:
                    kh = self.group_key(h, fn, lp)
                    print('   [keydbg] u-h:', [x for x in ku if x not in kh][:6], ' h-u:', [x for x in kh if x not in ku][:6])
            if os.environ.get('ABSINT_DBG') and rounds >= 8:
                for u in uncovered[:2]:
                    ku = self.group_key(u, fn, lp)
                    for h in heads:
                        if self.group_key(h, fn, lp) == ku:
                            print('   [dbg2] u.cell38=%r h.cell38=%r h.last=%r' % (u.mem.get('STATE', {}).get(((38, ()), 1)), h.mem.get('STATE', {}).get(((38, ()), 1)), h.pathlist()[-1][2]))
                            self._leq_dbg = True
                            print('   [dbg2] leq ->', self.leq(fn, lp, u, h))
                            self._leq_dbg = False
            if os.environ.get('ABSINT_DBG') and False:
                for h in heads:
                    c = h.mem.get('STATE', {}).get(((38, ()), 1))
                    print('   [dbg] head key=%x cell38=%r results-cached=%s last=%r' % (hash(self.group_key(h, fn, lp)) & 0xffffff, c, id(h) in results, h.pathlist()[-1][2][:60]))
                for u in uncovered[:3]:
                    print('   [dbg] unc  key=%x cell38=%r' % (hash(self.group_key(u, fn, lp)) & 0xffffff, u.mem.get('STATE', {}).get(((38, ()), 1))))

    def run_loop_step(self, fn, fi, lp, entry, rets):
        """exactly one iteration of the loop from each entry state; the back-edge states are handed to the hooks
        (on_step_backs) instead of being iterated to a fixpoint (opt-in per function: step-table extraction)"""
        head = lp['head']
        body_order = [b for b in fi['rpo'] if b in lp['body']]
        outs = {}
        allbacks = []
        for h in entry:
            backs = []
            o = {}
            self.process(fn, fi, body_order, {head: [h]}, rets, (lp, backs, o))
            for tgt, sts in o.items():
                outs.setdefault(tgt, []).extend(sts)
            allbacks.extend(backs)
        # a back-edge state only continues if the loop condition in the head block lets it: evaluate the head block
        # (it must be side-effect free) and keep the states that flow back into the body
        hb = fn.blocks[head]
        if any(ins.op in ('store', 'call', 'invoke', 'load', 'alloca') for ins in hb.instrs):
            # the loop condition is not tested in a side-effect free head block (do-while form, or a condition with effects):
            # the states on the back edge have already passed whatever decides about another iteration
            self.hooks.on_step_backs(fn, head, allbacks)
            return outs
        conts = []
        for b in allbacks:
            pending = {}
            o = {}
            self.exec_block(fn, hb, b, pending, rets, (lp, [], o))
            for tgt, sts in o.items():
                outs.setdefault(tgt, []).extend(sts)
            for sts in pending.values():
                conts.extend(sts)
        self.hooks.on_step_backs(fn, head, conts)
        return outs

    def run_loop_unrolled(self, fn, fi, lp, entry, rets):
        """loops with a constant trip count, analysed iteration by iteration without joining (opt-in per function)"""
        head = lp['head']
        body_order = [b for b in fi['rpo'] if b in lp['body']]
        outs = {}
        cur = list(entry)
        for it in range(40):
            if not cur:
                return outs
            nxt = []
            for h in cur:
                backs = []
                o = {}
                self.process(fn, fi, body_order, {head: [h]}, rets, (lp, backs, o))
                for tgt, sts in o.items():
                    outs.setdefault(tgt, []).extend(sts)
                nxt.extend(backs)
            if len(nxt) > 64:
                raise AnalysisBroken('unrolled loop at %s:%s forks too much' % (fn.name, head))
            cur = nxt
        raise AnalysisBroken('loop at %s:%s does not have a small constant trip count (unrolling requested)' % (fn.name, head))

    def snapshot_places(self, st, fn, lp):
        """values of the loop-carried places at the head (for ranking obligations)"""
        snap = {}
        for rname, cells in st.mem.items():
            for k, (o, s, v) in cells.items():
                snap[(rname, k)] = v
        for ins in fn.blocks[lp['head']].instrs:
            if ins.op != 'phi':
                break
            snap[('env', ins.res)] = st.top.env.get(ins.res)
        return snap

    def live_names(self, fn, lp):
        """SSA names meaningful at the loop head: defined in blocks dominating the head, plus its phis + params"""
        key = ('live', fn.name, lp['head'] if lp else None)
        r = self.fninfo[fn.name].get(key)
        if r is None:
            names = set(p[1] for p in fn.params)
            fi = self.fninfo[fn.name]
            if lp is not None:
                for bn in fn.order:
                    if bn == lp['head']:
                        for ins in fn.blocks[bn].instrs:
                            if ins.op == 'phi':
                                names.add(ins.res)
                    elif bn not in lp['body'] and fn.dominates(bn, lp['head']):
                        names.update(fi['defs_in'][bn])
            else:
                for bn in fn.order:
                    names.update(fi['defs_in'][bn])
            r = names
            fi[key] = r
        return r

    def loop_callargs(self, fn, lp):
        """SSA integers defined outside the loop that are passed directly to a call inside it (they select the
        effect of the call, e.g. the size argument of snprintf): partitioned by zero / non-zero"""
        key = ('callargs', lp['head'])
        fi = self.fninfo[fn.name]
        if key in fi:
            return fi[key]
        inside = set()
        for bn in lp['body']:
            inside.update(fi['defs_in'][bn])
        out = set()
        for bn in lp['body']:
            for ins in fn.blocks[bn].instrs:
                if ins.op == 'call':
                    for (t, v) in ins.ops:
                        if v[0] == 'local' and t[0] == 'int' and v[1] not in inside:
                            out.add(v[1])
        # loop bounds: live-in integers compared in the head block (a zero bound means the body never runs)
        for ins in fn.blocks[lp['head']].instrs:
            if ins.op == 'icmp':
                for (t, v) in ins.ops:
                    if v[0] == 'local' and t[0] == 'int' and v[1] not in inside:
                        out.add(v[1])
        fi[key] = out
        return out

    def flag_phis(self, fn, lp):
        """phis of the loop head that are flag-like (partitioned by constant value); induction variables
        (phi fed back through add/sub of itself) are merged and widened instead"""
        key = ('flagphis', lp['head'])
        fi = self.fninfo[fn.name]
        if key in fi:
            return fi[key]
        out = set()
        for ins in fn.blocks[lp['head']].instrs:
            if ins.op != 'phi':
                break
            induction = False
            for (v, lb) in ins.attrs['incoming']:
                if lb not in lp['body'] or v[0] != 'local':
                    continue
                # walk back through casts to an add/sub that uses the phi (through casts)
                cur = v[1]
                for _ in range(6):
                    d = fn.defs.get(cur)
                    if d is None:
                        break
                    if d.op in ('zext', 'sext', 'trunc'):
                        cur = d.ops[0][1][1] if d.ops[0][1][0] == 'local' else None
                        if cur is None:
                            break
                        continue
                    if d.op in ('add', 'sub'):
                        for (t, o) in d.ops:
                            c2 = o[1] if o[0] == 'local' else None
                            for _ in range(4):
                                if c2 == ins.res:
                                    induction = True
                                    break
                                dd = fn.defs.get(c2) if c2 else None
                                if dd is not None and dd.op in ('zext', 'sext', 'trunc') and dd.ops[0][1][0] == 'local':
                                    c2 = dd.ops[0][1][1]
                                else:
                                    break
                    break
            if not induction:
                out.add(ins.res)
        fi[key] = out
        return out

    def group_key(self, st, fn, lp):
        key = []
        env = st.top.env
        S = st.store
        names = sorted(self.live_names(fn, lp)) if lp is not None else sorted(env)
        phis = self.flag_phis(fn, lp) if lp is not None else set()
        callargs = self.loop_callargs(fn, lp) if lp is not None else ()
        smallc = self.ctx.limits.get('partition_small_consts', False)
        for n in names:
            v = env.get(n)
            if v is None:
                continue
            if isinstance(v, Int):
                if n in phis:
                    c = S.const_of(v.a)
                    key.append((n, c if c is not None else 'S'))
                elif n in callargs:
                    lo, hi = S.bounds(v.a)
                    key.append((n, 0 if hi == 0 else ('+' if lo > 0 else '?')))
                elif smallc and v.w <= 8 and not v.a.t:
                    key.append((n, v.a.c))          # small constants select modes (widths, type bytes)
            elif isinstance(v, Ptr):
                key.append((n, v.region))
            else:
                key.append((n, v.key()))
        snaps = [(tk, tv) for tk, tv in st.tags.items() if isinstance(tk, tuple) and tk and tk[0] == 'loophead']
        for rname in sorted(st.mem):
            r = st.regions.get(rname)
            islocal = rname.startswith('L')
            if r is not None and r.kind == 'array':
                key.append((rname, st.tags.get(('default', rname))))
                continue
            for k, (o, s, v) in sorted(st.mem[rname].items(), key=lambda kv: repr(kv[0])):
                if o.t:
                    continue
                if isinstance(v, Int):
                    if smallc and islocal and not o.t and v.w <= 8 and not v.a.t:
                        key.append((rname, k, v.a.c))
                    if not islocal and not o.t:
                        c = S.const_of(v.a)
                        lo, hi = S.bounds(v.a)
                        key.append((rname, k, 0 if hi == 0 else ('+' if lo > 0 else '?')))
                        # unchanged since the enclosing loop heads? (keeps "made no progress yet" apart from "progressed")
                        for sk, snap in snaps:
                            if sk[1] == fn.name and lp is not None and sk[2] == lp['head']:
                                continue
                            hv = snap.get((rname, k))
                            if isinstance(hv, Int) and v.w >= 32:
                                key.append((rname, k, sk[1], hv.a == v.a))
                elif isinstance(v, Ptr):
                    key.append((rname, k, v.region))
                elif isinstance(v, (Null, Fn, Zero)):
                    key.append((rname, k, v.key()))
                else:
                    key.append((rname, k, 'T'))
            key.append((rname, st.tags.get(('default', rname))))
        key.extend(self.hooks.partition_extra(st))
        return tuple(key)

    def group_and_join(self, fn, lp, states, why, widen=False, prev=None):
        groups = {}
        order = []
        for s in states:
            k = self.group_key(s, fn, lp)
            if k not in groups:
                groups[k] = []
                order.append(k)
            groups[k].append(s)
        out = []
        for k in order:
            g = groups[k]
            if len(g) == 1:
                out.append(g[0])
            else:
                self.ctx.stats['joins'] += 1
                hh = self.generalise(fn, g, lp, why, widen=widen, prev=prev)
                import os
                if os.environ.get('ABSINT_DBG'):
                    cs = [x.mem.get('STATE', {}).get(((38, ()), 1)) for x in g]
                    if len({repr(c) for c in cs}) > 1:
                        print('   [dbg3] group of %d: cells=%r -> %r' % (len(g), cs[:6], hh.mem.get('STATE', {}).get(((38, ()), 1))))
                out.append(hh)
        return out

    # ---- join with candidate invariants ---------------------------------------------------------------------
    def generalise(self, fn, states, lp, why, widen=False, prev=None):
        for s_ in states:
            if not s_.tags.get('_places') or True:
                self.hooks.before_join(s_, fn, why)
        base = states[0]
        H = base.copy()
        n = len(states)
        sig = [dict() for _ in states]     # per state: head sym -> Aff (its value there)
        places = []                        # (descr, head sym, width)
        live = self.live_names(fn, lp) if lp is not None else None
        # --- env
        env = H.top.env
        for name in list(env):
            if live is not None and name not in live:
                del env[name]
                continue
            vals = []
            for s in states:
                v = s.top.env.get(name)
                vals.append(v)
            nv = self.join_vals(H, states, vals, sig, places, ('env', name), widen, prev)
            if nv is None:
                del env[name]
            else:
                env[name] = nv
        # --- memory (array regions last: whether their symbolically addressed cells survive depends on
        #     which index symbols were generalised by the other places)
        rorder = sorted(H.mem, key=lambda rn: 1 if (rn in H.regions and H.regions[rn].kind == 'array') else 0)
        for rname in rorder:
            cells = H.mem[rname]
            newc = {}
            dropped = False
            isarr = H.regions[rname].kind == 'array' if rname in H.regions else False
            gone = None
            if isarr:
                gone = set()
                for hs_, a_ in sig[0].items():
                    gone.update(a_.t)
            for k, (o, sz, v) in cells.items():
                if isarr and o.t and any(z in gone for z in o.t):
                    # the index expression mentions a value that this join generalises: the cell can no longer
                    # be related to the joined index; forget it (the hook checked the cell invariant before)
                    dropped = True
                    continue
                vals = []
                missing = False
                for s in states:
                    c = s.mem.get(rname, {}).get(k)
                    if c is None:
                        missing = True
                        break
                    vals.append(c[2])
                if missing:
                    dropped = True
                    continue
                nv = self.join_vals(H, states, vals, sig, places, (rname, k), widen, prev)
                if nv is None:
                    dropped = True
                    continue
                newc[k] = (o, sz, nv)
            for s in states[1:]:
                for k in s.mem.get(rname, {}):
                    if k not in cells:
                        dropped = True
            H.mem[rname] = newc
            H.owned.add(rname)
            if dropped:
                H.tags[('havoc', rname)] = 'all'
        def _fwkey(t):
            return tuple(t or ())
        for tk in [t for t in base.tags if isinstance(t, tuple) and t and t[0] == 'fw']:
            for s in states[1:]:
                if _fwkey(s.tags.get(tk)) != _fwkey(base.tags.get(tk)):
                    H.tags.pop(tk, None)
                    break
        # tags: default must agree, havoc is or-ed
        for s in states[1:]:
            for tk, tv in s.tags.items():
                if tk[0] == 'havoc' and tv:
                    if H.tags.get(tk) != 'all':
                        H.tags[tk] = 'all' if tv == 'all' or H.tags.get(tk) != tv else tv
                if tk[0] == 'default' and H.tags.get(tk) != tv:
                    H.tags[tk] = 'unknown'
                    H.tags[('havoc', tk[1])] = 'all'
        # --- store: common part
        S = H.store
        common = set(base.store.ivl)
        for s in states[1:]:
            common &= set(s.store.ivl)
        newivl = {}
        for sym in common:
            lo, hi = base.store.ivl[sym]
            for s in states[1:]:
                a, b = s.store.ivl[sym]
                if a < lo:
                    lo = a
                if b > hi:
                    hi = b
            newivl[sym] = (lo, hi)
        headsyms = {p[1] for p in places}
        for hs in headsyms:
            newivl[hs] = S.ivl[hs]
        # common relational part: same terms in every state, weakest constant
        keep_rel = []
        for e in base.store.rel:
            tk = e.key()[1]
            c = e.c
            ok = True
            for s in states[1:]:
                o = s.store.byterms.get(tk)
                if o is None:
                    ok = False
                    break
                if o.c > c:
                    c = o.c
            if ok and all(x in newivl for x in e.t):
                keep_rel.append(e if c == e.c else Aff(c, dict(e.t)))
        S.ivl = newivl
        S.set_rel(keep_rel)
        nk = None
        for s in states:
            ks = {e.key() for e in s.store.neq}
            nk = ks if nk is None else (nk & ks)
        S.neq = [e for e in base.store.neq if e.key() in nk and all(x in newivl for x in e.t)]
        S.bottom = False
        # kb / memo tables: keep entries equal everywhere
        for tab in ('kb', 'andmemo', 'bufmemo'):
            t0 = getattr(base, tab)
            keep = {}
            for k, v in t0.items():
                if all(getattr(s, tab).get(k) == v for s in states[1:]):
                    keep[k] = v
            setattr(H, tab, keep)
        H.kb = {k: v for k, v in H.kb.items() if k in newivl}
        for k_, v_ in getattr(self, '_newkb', {}).items():
            if k_ in newivl:
                H.kb[k_] = v_
        self._newkb = {}
        H.andmemo = {k: v for k, v in H.andmemo.items() if k[0] in newivl and v in newivl}
        H.bufmemo = {k: v for k, v in H.bufmemo.items() if v in newivl}
        ctrl = base.ctrl
        for s in states[1:]:
            ctrl = ctrl | s.ctrl
        H.ctrl = ctrl
        # --- candidate invariants over head symbols
        import os
        if os.environ.get('ABSINT_PLACE'):
            for (d, hs, w) in places:
                if d[0] == 'P' and d[1][0][0] in (1, 48):
                    print('   [place] %r %s houdini=%s: %r' % (d, hs, bool(widen and base.tags.get('_places')), [sg[hs] for sg in sig][:12]))
        houdini = bool(widen and base.tags.get('_places'))
        self._cur_loop = (fn.name, lp['head']) if lp is not None else None
        cands = self.candidates(H, states, sig, places, common, houdini)
        kept = 0
        good = {}
        for c in cands:
            ok = True
            for i, s in enumerate(states):
                ci = c.subst(sig[i])
                if not all(x in s.store.ivl for x in ci.t):
                    ok = False
                    break
                if not s.store.entails_ge0(ci):
                    ok = False
                    import os
                    if os.environ.get('ABSINT_CANDS') and os.environ['ABSINT_CANDS'] in repr(c):
                        print('   [cand] %r rejected by state %d as %r bounds=%r path=%r' % (c, i, ci, s.store.bounds(ci), s.pathlist()[-4:]))
                    break
            if ok:
                tk = c.key()[1]
                o = good.get(tk)
                if o is None or c.c < o.c:
                    good[tk] = c
        eqonly = getattr(self, '_eqonly', set()) - getattr(self, '_ineq', set())
        for tk, c in list(good.items()):
            if c.key() in eqonly:
                ng = good.get(c.neg().key()[1])
                if ng is None or ng.c != -c.c:
                    del good[tk]
        # equalities among kept candidates define a head symbol in terms of others: eliminate it, so that
        # e.g. current_state = &state[depth-1] is carried syntactically
        elim = {}
        for tk, c in list(good.items()):
            ng = good.get(c.neg().key()[1])
            if ng is None or ng.c != -c.c:
                continue
            cc = c.subst(elim) if elim else c
            pick = None
            for x, k in cc.t.items():
                if x in headsyms and abs(k) == 1 and x not in elim:
                    isptr = any(p[1] == x and p[0][0] != 'env' and False for p in places)
                    if pick is None or x.startswith('off'):
                        pick = (x, k)
            if pick is None:
                continue
            x, k = pick
            rest = cc.sub(Aff.sym(x, k))
            expr = rest.neg() if k == 1 else rest
            if len(expr.t) > 3:
                continue
            for y in list(elim):
                elim[y] = elim[y].subst({x: expr})
            elim[x] = expr
        if elim:
            for c in list(good.values()):
                pass
            for name, v in list(H.top.env.items()):
                if isinstance(v, Int) and any(x in elim for x in v.a.t):
                    H.top.env[name] = Int(v.w, v.a.subst(elim), v.pred)
                elif isinstance(v, Ptr) and any(x in elim for x in v.off.t):
                    H.top.env[name] = Ptr(v.region, v.off.subst(elim))
            for rname, cells in H.mem.items():
                for k, (o, sz, v) in list(cells.items()):
                    if isinstance(v, Int) and any(x in elim for x in v.a.t):
                        cells[k] = (o, sz, Int(v.w, v.a.subst(elim), v.pred))
                    elif isinstance(v, Ptr) and any(x in elim for x in v.off.t):
                        cells[k] = (o, sz, Ptr(v.region, v.off.subst(elim)))
            for x, expr in elim.items():
                lo, hi = S.ivl.pop(x)
                good[('lo', x)] = expr.sub(lo)
                good[('hi', x)] = expr.neg().add(hi)
                headsyms.discard(x)
            H.tags['_elim'] = dict(elim)
        import os
        for c in good.values():
            if elim:
                c = c.subst(elim)
                if not c.t:
                    continue
            if os.environ.get('ABSINT_KEPT') and os.environ['ABSINT_KEPT'] in repr(c):
                print('   [kept] %r (elim=%r)' % (c, elim))
            S.assume_ge0(c, propagate=False)
            kept += 1
        S._propagate(set(headsyms))
        H.decide((fn.name, 0, '%s: joined %d disjuncts, %d head symbols, %d/%d candidate invariants kept' % (
            why, n, len(places), kept, len(cands))))
        H.tags['_places'] = places
        return H

    def join_vals(self, H, states, vals, sig, places, descr, widen, prev):
        v0 = vals[0]
        if v0 is None or any(v is None for v in vals):
            return None
        if all(veq(v0, v) for v in vals[1:]):
            return v0
        if all(isinstance(v, Int) for v in vals) and len({v.w for v in vals}) == 1:
            w = v0.w
            lo = hi = None
            for s, v in zip(states, vals):
                a, b = s.store.bounds(v.a)
                lo = a if lo is None or a < lo else lo
                hi = b if hi is None or b > hi else hi
            if widen:
                a0, b0 = states[0].store.bounds(v0.a)
                if lo < a0:
                    lo = 1 if lo >= 1 else 0
                if hi > b0:
                    hi = mask(w)
            lo = max(lo, 0)
            hi = min(hi, mask(w))
            hs = H.fresh('head:%s' % (descr[1] if descr[0] == 'env' else 'cell'), w, lo, hi)
            # known bits of the join: bits that are 0 (resp. 1) in every joined value
            if w <= 16:
                zeros = ones = mask(w)
                for s, v in zip(states, vals):
                    c = s.store.const_of(v.a)
                    if c is not None:
                        z_, o_ = (~c) & mask(w), c
                    else:
                        sg = v.a.single()
                        z_, o_ = s.kb.get(sg[0], (0, 0)) if sg and sg[1] == 1 and v.a.c == 0 else (0, 0)
                    zeros &= z_
                    ones &= o_
                if zeros or ones:
                    H.kb[hs] = (zeros, ones)
                    self._newkb = getattr(self, '_newkb', {})
                    self._newkb[hs] = (zeros, ones)
            for i, v in enumerate(vals):
                sig[i][hs] = v.a
            places.append((descr, hs, w))
            return Int(w, Aff.sym(hs))
        if all(isinstance(v, Ptr) for v in vals) and len({v.region for v in vals}) == 1:
            lo = hi = None
            for s, v in zip(states, vals):
                a, b = s.store.bounds(v.off)
                lo = a if lo is None or a < lo else lo
                hi = b if hi is None or b > hi else hi
            if widen:
                a0, b0 = states[0].store.bounds(v0.off)
                if lo < a0:
                    lo = min(lo, 0)
                if hi > b0:
                    hi = mask(64)
            hs = H.fresh('head:off', 64, max(lo, 0), hi)
            for i, v in enumerate(vals):
                sig[i][hs] = v.off
            places.append((descr, hs, 64))
            return Ptr(v0.region, Aff.sym(hs))
        if descr[0] != 'env' and all(isinstance(v, (Ptr, Null)) for v in vals):
            return None
        return Top('ptr' if any(isinstance(v, (Ptr, Null, Fn, Top)) for v in vals) else 'int', 'join')

    def candidates(self, H, states, sig, places, common, houdini=False):
        cands = {}
        self._eqonly = set()
        self._ineq = set()

        def add(e):
            if e.t:
                cands.setdefault(e.key(), e)
                self._ineq.add(e.key())

        def addeq(e):
            # an equality family: useful only if both directions survive
            if e.t:
                n_ = e.neg()
                cands.setdefault(e.key(), e)
                cands.setdefault(n_.key(), n_)
                self._eqonly.add(e.key())
                self._eqonly.add(n_.key())
        hsyms = [p[1] for p in places]
        hset = set(hsyms)
        # (i) rewrite the relational constraints of each state through its place values:
        #     a place whose value there is `sym + c` gives sym := head - c
        for i, s in enumerate(states):
            if houdini and i > 0:
                break
            inv = {}
            for hs in hsyms:
                a = sig[i][hs]
                sg = a.single()
                if sg and sg[1] == 1:
                    inv.setdefault(sg[0], []).append(Aff.sym(hs).sub(a.c))
            if not inv:
                continue
            for e in s.store.rel:
                hit = [z for z in e.t if z in inv]
                if not hit:
                    continue
                variants = [e]
                for z in hit:
                    nv = []
                    for v in variants:
                        for rep in inv[z][:2]:
                            nv.append(v.subst({z: rep}))
                    variants = nv[:4]
                for v in variants:
                    if all((x in common or x in hset) for x in v.t):
                        add(v)
        # (i-b) place values with several symbols: a constraint of the form k*value + rest(common) is
        #       rewritten to k*head + rest
        for i, s in enumerate(states):
            if houdini and i > 0:
                break
            multi = []
            for hs in hsyms:
                a = sig[i][hs]
                if len(a.t) >= 2:
                    nc = [z for z in a.t if z not in common]
                    pivot = nc[0] if nc else None
                    if pivot is None:
                        continue
                    multi.append((hs, a, pivot))
            if not multi:
                continue
            for e in s.store.rel:
                for (hs, a, pivot) in multi:
                    kz = e.t.get(pivot)
                    if kz is None or kz % a.t[pivot]:
                        continue
                    k = kz // a.t[pivot]
                    rest = e.sub(a.mul(k))
                    if all((x in common or x in hset) for x in rest.t):
                        add(rest.add(Aff.sym(hs, k)))
        newset = hset
        if houdini:
            # later widening rounds only filter what the previous head already carried (termination);
            # templates are offered once more only for places that became symbolic in this round
            old = {p[1] for p in states[0].tags.get('_places', ())}
            newset = set()
            for hs in hsyms:
                sg = sig[0][hs].single()
                if not (sg and sg[1] == 1 and sig[0][hs].c == 0 and sg[0] in old):
                    newset.add(hs)
            if not newset:
                return list(cands.values())
        add0 = add
        addeq0 = addeq

        def add(e):
            if any(x in newset for x in e.t):
                add0(e)

        def addeq(e):
            if any(x in newset for x in e.t):
                addeq0(e)
        # (ii) two-point affine relations between pairs of head symbols
        if len(states) >= 2:
            for ai in range(len(hsyms)):
                for bi in range(ai + 1, len(hsyms)):
                    x, y = hsyms[ai], hsyms[bi]
                    x0, y0 = sig[0][x], sig[0][y]
                    if not all(z in common for z in x0.t) or not all(z in common for z in y0.t):
                        continue
                    for j in range(1, len(states)):
                        dx = sig[j][x].sub(x0)
                        dy = sig[j][y].sub(y0)
                        if dx.is_const() and dy.is_const() and (dx.c or dy.c):
                            # dy*(X - x0) = dx*(Y - y0)
                            e = Aff.sym(x, dy.c).sub(x0.mul(dy.c)).sub(Aff.sym(y, dx.c)).add(y0.mul(dx.c))
                            addeq(e)
                            break
        # (ii-b) both places affine in one shared symbol within some state: eliminate that symbol
        for i, s in enumerate(states):
            single = {}
            for hs in hsyms:
                sg = sig[i][hs].single()
                if sg:
                    single.setdefault(sg[0], []).append((hs, sg[1], sig[i][hs].c))
            for z, lst in single.items():
                if len(lst) < 2 or len(lst) > 6:
                    continue
                for ai in range(len(lst)):
                    for bi in range(ai + 1, len(lst)):
                        (x, a1, c1), (y, a2, c2) = lst[ai], lst[bi]
                        e = Aff.sym(x, a2).sub(Aff.sym(y, a1)).sub(a2 * c1 - a1 * c2)
                        addeq(e)
        # (vi) a place that is `y + something` in every state, y a common symbol: keep the range of that something
        for x in hsyms:
            a0 = sig[0][x]
            for y, ky in a0.t.items():
                if ky != 1 or y not in common:
                    continue
                lo_k = hi_k = None
                ok = True
                for i, s in enumerate(states):
                    ai = sig[i][x]
                    if ai.t.get(y) != 1:
                        ok = False
                        break
                    d = ai.sub(Aff.sym(y))
                    if not all(z in s.store.ivl for z in d.t):
                        ok = False
                        break
                    a_, b_ = s.store.bounds(d)
                    lo_k = a_ if lo_k is None or a_ < lo_k else lo_k
                    hi_k = b_ if hi_k is None or b_ > hi_k else hi_k
                if ok:
                    add(Aff.sym(x).sub(Aff.sym(y)).sub(lo_k))
                    if hi_k < (1 << 62):
                        add(Aff.sym(y).sub(Aff.sym(x)).add(hi_k))
        # (viii) two places whose difference is the same expression over common symbols in every state
        for ai in range(len(hsyms)):
            for bi in range(ai + 1, len(hsyms)):
                x, y = hsyms[ai], hsyms[bi]
                d0 = sig[0][x].sub(sig[0][y])
                if not all(z in common for z in d0.t):
                    continue
                if all(sig[i][x].sub(sig[i][y]) == d0 for i in range(1, len(states))):
                    e = Aff.sym(x).sub(Aff.sym(y)).sub(d0)
                    addeq(e)
        # (vii) progress relative to the values recorded at the enclosing loop heads (needed by ranking arguments)
        anchors = {}
        for tk, snap in states[0].tags.items():
            if isinstance(tk, tuple) and tk and tk[0] == 'loophead' and (tk[1], tk[2]) != getattr(self, '_cur_loop', None):
                for k_, v_ in snap.items():
                    if isinstance(v_, Int):
                        sg = v_.a.single()
                        if sg and sg[1] == 1 and v_.a.c == 0 and sg[0] in common and sg[0] not in hset:
                            anchors[sg[0]] = v_.w
        for (d, x, w) in places:
            for y, w2 in anchors.items():
                if w == w2:
                    add(Aff.sym(x).sub(Aff.sym(y)).sub(1))
                    add(Aff.sym(x).sub(Aff.sym(y)))
                    add(Aff.sym(y).sub(Aff.sym(x)))
        # (v) a place whose value in the first state is an expression over common symbols may have
        #     that same value everywhere (syntactically different, semantically equal)
        for x in hsyms:
            x0 = sig[0][x]
            if x0.t and all(z in common for z in x0.t):
                e = Aff.sym(x).sub(x0)
                addeq(e)
        # (iii) templates between same-width int places (head symbols, unchanged cells, live SSA values)
        unchanged = {}
        for rname, cells in H.mem.items():
            for k, (o, sz, v) in cells.items():
                if isinstance(v, Int):
                    sg = v.a.single()
                    if sg and sg[1] == 1 and v.a.c == 0 and sg[0] not in hset and sg[0] in common:
                        unchanged[sg[0]] = v.w
        for name, v in H.top.env.items():
            if isinstance(v, Int):
                sg = v.a.single()
                if sg and sg[1] == 1 and v.a.c == 0 and sg[0] not in hset and sg[0] in common:
                    unchanged[sg[0]] = v.w
        for (d, x, w) in places:
            for (d2, y, w2) in places:
                if x != y and w == w2:
                    add(Aff.sym(y).sub(Aff.sym(x)))
            for y, w2 in unchanged.items():
                if w == w2:
                    add(Aff.sym(y).sub(Aff.sym(x)))
                    add(Aff.sym(y).sub(Aff.sym(x)).sub(1))
                    add(Aff.sym(x).sub(Aff.sym(y)))
        # (iv) x + y = z among 64-bit head symbols (pointer offset + length = cursor)
        wide = [p[1] for p in places if p[2] >= 32]
        if 3 <= len(wide) <= 12:
            for a in range(len(wide)):
                for b in range(a + 1, len(wide)):
                    for c in range(len(wide)):
                        if c == a or c == b:
                            continue
                        e = Aff.sym(wide[a]).add(Aff.sym(wide[b])).sub(Aff.sym(wide[c]))
                        addeq(e)
        return list(cands.values())

    # ---- coverage ---------------------------------------------------------------------------------------------
    def covered(self, fn, lp, s, heads):
        k = self.group_key(s, fn, lp)
        for H in heads:
            if self.group_key(H, fn, lp) != k:
                continue
            if getattr(self, '_leq_dbg', False):
                print('   [cmp] s(last=%r) vs H(last=%r)' % (s.pathlist()[-3:], H.pathlist()[-1][2][:50]))
            if self.leq(fn, lp, s, H):
                return True
        return False

    def leq(self, fn, lp, s, H):
        sigma = {}
        hs_syms = set()
        for p in H.tags.get('_places', ()):
            hs_syms.add(p[1])

        deferred = []

        def match(hv, sv):
            if hv is None:
                return True
            if sv is None:
                return self._why(1, locals())
            if veq(hv, sv):
                return True
            if isinstance(hv, Int) and isinstance(sv, Int) and hv.w == sv.w and len(hv.a.t) >= 1 and \
                    any(x in hs_syms for x in hv.a.t) and not (hv.a.single() and hv.a.single()[1] == 1 and hv.a.c == 0):
                deferred.append((hv.a, sv.a))
                return True
            if isinstance(hv, Ptr) and isinstance(sv, Ptr) and hv.region == sv.region and \
                    any(x in hs_syms for x in hv.off.t) and not (hv.off.single() and hv.off.single()[1] == 1 and hv.off.c == 0):
                deferred.append((hv.off, sv.off))
                return True
            if isinstance(hv, Int) and isinstance(sv, Int) and hv.w == sv.w and not any(x in hs_syms for x in hv.a.t):
                if all(x in s.store.ivl for x in hv.a.t) and s.store.entails_eq0(hv.a.sub(sv.a)):
                    return True
            if isinstance(hv, Ptr) and isinstance(sv, Ptr) and hv.region == sv.region and not any(x in hs_syms for x in hv.off.t):
                if all(x in s.store.ivl for x in hv.off.t) and s.store.entails_eq0(hv.off.sub(sv.off)):
                    return True
            if isinstance(hv, Int) and isinstance(sv, Int) and hv.w == sv.w:
                sg = hv.a.single()
                if sg and sg[1] == 1 and hv.a.c == 0 and sg[0] in hs_syms:
                    if sg[0] in sigma and sigma[sg[0]] != sv.a:
                        return self._why(2, locals())
                    sigma[sg[0]] = sv.a
                    return True
                return self._why(3, locals())
            if isinstance(hv, Ptr) and isinstance(sv, Ptr) and hv.region == sv.region:
                sg = hv.off.single()
                if sg and sg[1] == 1 and hv.off.c == 0 and sg[0] in hs_syms:
                    if sg[0] in sigma and sigma[sg[0]] != sv.off:
                        return self._why(4, locals())
                    sigma[sg[0]] = sv.off
                    return True
                return self._why(5, locals())
            if isinstance(hv, Top):
                return True
            return self._why(6, locals())
        live = self.live_names(fn, lp)
        for name, hv in H.top.env.items():
            if name in live and not match(hv, s.top.env.get(name)):
                return self._why(7, locals())
        for rname, hc in H.mem.items():
            sc = s.mem.get(rname, {})
            for kk, (o, sz, hv) in hc.items():
                c = sc.get(kk)
                if c is None or not match(hv, c[2]):
                    return self._why(8, locals())
            if any(kk not in hc for kk in sc):
                if H.tags.get(('havoc', rname)) != 'all' and H.regions[rname].content == 'cells':
                    return self._why(9, locals())
        for tk, tv in s.tags.items():
            if tk[0] == 'default' and H.tags.get(tk) != tv and H.tags.get(tk) != 'unknown':
                return self._why(10, locals())
            if tk[0] == 'havoc' and tv and H.tags.get(tk) != 'all' and H.tags.get(tk) != tv:
                return self._why(11, locals())
        # store
        SS = s.store
        HS = H.store
        for (ha, sa) in deferred:
            hi_ = ha.subst(sigma)
            if not all(x in SS.ivl for x in hi_.t):
                return self._why(12, locals())
            if not SS.entails_eq0(hi_.sub(sa)):
                return self._why(13, locals())
        for sym, (lo, hi) in HS.ivl.items():
            if sym in sigma:
                ex = sigma[sym]
            elif sym in SS.ivl:
                ex = Aff.sym(sym)
            else:
                continue
            a, b = SS.bounds(ex)
            if a < lo and SS.entails_ge0(ex.sub(lo)):
                a = lo
            if b > hi and SS.entails_ge0(ex.neg().add(hi)):
                b = hi
            if a < lo or b > hi:
                return self._why(14, locals())
        for e in HS.rel:
            if not any(x in sigma for x in e.t):
                if e.key() in SS.relset:
                    continue
                ei = e
            else:
                ei = e.subst(sigma)
            if not all(x in SS.ivl for x in ei.t):
                return self._why(15, locals())
            if not SS.entails_ge0(ei):
                return self._why(16, locals())
        for sym, (z, o) in H.kb.items():
            if sym in sigma:
                ex = sigma[sym]
                c = SS.const_of(ex)
                if c is not None:
                    z2, o2 = ~c, c
                else:
                    sg = ex.single()
                    z2, o2 = s.kb.get(sg[0], (0, 0)) if sg and sg[1] == 1 and ex.c == 0 else (0, 0)
            else:
                if sym in SS.ivl and SS.ivl[sym][0] == SS.ivl[sym][1]:
                    z2, o2 = ~SS.ivl[sym][0], SS.ivl[sym][0]
                else:
                    z2, o2 = s.kb.get(sym, (0, 0))
            if (z & ~z2) or (o & ~o2):
                return self._why(19, locals())
        return True

    def _why(self, n, loc):
        import os
        if os.environ.get('ABSINT_LEQ') and getattr(self, '_leq_dbg', False):
            info = {k: loc.get(k) for k in ('name', 'rname', 'kk', 'sym', 'e', 'ei', 'ha', 'sa', 'hi_', 'tk', 'hv', 'sv', 'lo', 'hi', 'a', 'b') if k in loc}
            print('   [leq] fail #%d %r' % (n, info))
        return False

    def compact_exits(self, fn, exits):
        groups = {}
        order = []
        for (s, rv) in exits:
            rk = rv.key() if rv is not None and not (isinstance(rv, Int) and s.store.const_of(rv.a) is None) else 'S'
            if isinstance(rv, Int):
                c = s.store.const_of(rv.a)
                rk = ('c', c) if c is not None else 'S'
            k = (rk, self.group_key(s, s.top.fn, None))
            if k not in groups:
                groups[k] = []
                order.append(k)
            groups[k].append((s, rv))
        out = []
        for k in order:
            g = groups[k]
            if len(g) == 1 or k[0] == 'S':
                out.extend(g)
                continue
            H = self.generalise(g[0][0].top.fn, [x[0] for x in g], None, 'return of %s' % fn.name)
            out.append((H, g[0][1]))
        return out
