"""absmem: the memory model of absint (regions, cells, bounds obligations)."""
from .lin import Aff
from .absval import Int, Ptr, Null, Fn, Top, Zero, NULL, ZERO, veq, Region
from .common import AnalysisBroken


class Mem:
    def __init__(self, ops):
        self.ops = ops
        self.ctx = ops.ctx
        self.mod = ops.mod

    # ---- regions ----------------------------------------------------------------------
    def region(self, st, name):
        r = st.regions.get(name)
        if r is None and name.startswith('@'):
            g = self.mod.globals.get(name[1:])
            if g is None:
                raise AnalysisBroken('unknown global %s' % name)
            init = g.get('init')
            r = Region(name, 'const' if g['constant'] else 'obj', Aff(self.mod.sizeof(g['ty'])),
                       readonly=g['constant'], content='const')
            r.elem = init[1] if init and init[0] == 'cstr' else None
            st.regions[name] = r
        if r is None:
            raise AnalysisBroken('unknown region %s' % name)
        return r

    def in_bounds(self, st, ptr, size):
        """(ok, region): 0 <= off and off + size <= len(region)"""
        if not isinstance(ptr, Ptr):
            return False, None
        r = self.region(st, ptr.region)
        S = st.store
        if not S.entails_ge0(ptr.off):
            return False, r
        end = ptr.off.add(size) if isinstance(size, (int, Aff)) else None
        if not S.entails_ge0(r.length.sub(end)):
            return False, r
        return True, r

    def describe(self, st, ptr, size):
        if isinstance(ptr, Ptr):
            r = st.regions.get(ptr.region)
            return 'access [%r, +%r) in region %s of length %r' % (ptr.off, size, ptr.region, r.length if r else '?')
        return 'access through %r' % (ptr,)

    def check(self, st, rw, ptr, size, ins, what=''):
        ok, r = self.in_bounds(st, ptr, size)
        kind = 'MEM-' + rw
        import os
        if not ok and os.environ.get('ABSINT_OBDBG') and ins.fn.name == os.environ['ABSINT_OBDBG'] and isinstance(ptr, Ptr) and not getattr(self, '_dbgdone', False):
            self._dbgdone = True
            syms = set(ptr.off.t)
            S = st.store
            print('   [obdbg] %s off=%r size=%r len=%r' % (ins.loc(), ptr.off, size, r.length if r else None))
            for _ in range(2):
                for e in S.rel:
                    if any(z in syms for z in e.t):
                        syms.update(e.t)
            for e in S.rel:
                if any(z in syms for z in e.t):
                    print('        %r >= 0' % e)
            for z in sorted(syms):
                print('        %s in %r origin=%s' % (z, S.ivl[z], st.syminfo[z].origin if z in st.syminfo else '?'))
        self.ops.oblige(st, kind, ok, ins, what or self.describe(st, ptr, size), self.describe(st, ptr, size))
        if ok and rw == 'W':
            self.ops.oblige(st, 'REGION-W', not r.readonly, ins, 'store into read-only region %s' % r.name,
                            self.describe(st, ptr, size))
            if r.readonly:
                return False, r
        return ok, r

    # ---- overlap ------------------------------------------------------------------------
    def relation(self, st, o1, s1, o2, s2):
        """'same' | 'disjoint' | 'overlap' | 'may' for ranges [o1,o1+s1) and [o2,o2+s2)"""
        d = o1.sub(o2)
        if d.is_const():
            c = d.c
            if c == 0 and s1 == s2:
                return 'same'
            if c >= s2 or -c >= s1:
                return 'disjoint'
            return 'overlap'
        S = st.store
        if S.entails_ge0(d.sub(s2)) or S.entails_ge0(d.neg().sub(s1)):
            return 'disjoint'
        if s1 == s2 and S.entails_eq0(d):
            return 'same'
        return 'may'

    # ---- load -----------------------------------------------------------------------------
    def unknown(self, st, ty, why):
        if ty[0] == 'int':
            return st.fresh_int(why, ty[1])
        if ty[0] == 'ptr':
            return Top('ptr', why)
        return Top(ty[0], why)

    def zero_of(self, ty):
        if ty[0] == 'int':
            return Int(ty[1], Aff(0))
        if ty[0] == 'ptr':
            return NULL
        return Top(ty[0], 'zero')

    def load(self, st, ptr, ty, ins):
        size = self.mod.sizeof(ty)
        ok, r = self.check(st, 'R', ptr, size, ins)
        if not ok:
            return self.unknown(st, ty, 'load-unproven')
        h = self.ctx.hooks
        if h is not None:
            h.on_load(st, r, ptr.off, size, ins)
        if r.content == 'bytes':
            if ty == ('int', 8):
                key = (r.name, ptr.off.key())
                s = st.bufmemo.get(key)
                if s is None:
                    s = st.fresh('byte:' + r.name, 8)
                    st.bufmemo[key] = s
                return Int(8, Aff.sym(s))
            return self.unknown(st, ty, 'wide-load:' + r.name)
        if r.content == 'const':
            c = st.store.const_of(ptr.off)
            if c is not None and r.elem is not None and ty == ('int', 8) and c < len(r.elem):
                return Int(8, Aff(r.elem[c]))
            return self.unknown(st, ty, 'const-global')
        if r.content == 'none':
            return self.unknown(st, ty, 'sink-read')
        cells = st.cells(r.name) or {}
        key = (ptr.off.key(), size)
        hit = cells.get(key)
        if hit is not None:
            v = hit[2]
            if isinstance(v, Zero):
                return self.zero_of(ty)
            return self.retype(st, v, ty)
        maybe = False
        for (o2, s2, v2) in cells.values():
            rel = self.relation(st, ptr.off, size, o2, s2)
            if rel == 'disjoint':
                continue
            if isinstance(v2, Zero):
                d = ptr.off.sub(o2)
                if rel == 'overlap' and d.is_const() and d.c >= 0 and d.c + size <= s2:
                    return self.zero_of(ty)
            if rel == 'same':
                return self.retype(st, v2, ty)
            maybe = True
        if maybe:
            return self.unknown(st, ty, 'partial-overlap:' + r.name)
        # default content
        havoc = self.is_havoced(st, r.name, ptr.off, size)
        v = None
        if h is not None:
            res = h.default_cell(st, r, ptr.off, size, ty, havoc, ins)
            if res is not None:
                # a default may fork the state: list of (state, value); the interpreter handles lists
                return res
        if v is None:
            dflt = st.tags.get(('default', r.name))
            if dflt == 'zero' and not havoc:
                v = self.zero_of(ty)
            else:
                v = self.unknown(st, ty, 'uninit:' + r.name)
        st.wcells(r.name)[key] = (ptr.off, size, v)
        return v

    def retype(self, st, v, ty):
        if ty[0] == 'int':
            if isinstance(v, Int):
                if v.w == ty[1]:
                    return v
                return st.fresh_int('retype', ty[1])
            return st.fresh_int('retype', ty[1])
        if ty[0] == 'ptr':
            if isinstance(v, (Ptr, Null, Fn, Top)):
                return v
            if isinstance(v, Int) and st.store.const_of(v.a) == 0:
                return NULL
            return Top('ptr', 'int-as-ptr')
        if isinstance(v, Top):
            return v
        return Top(ty[0], 'retype')

    def is_havoced(self, st, rname, off, size):
        hv = st.tags.get(('havoc', rname))
        if not hv:
            return False
        if hv == 'all':
            return True
        for (o2, s2) in hv:
            if s2 is None or self.relation(st, off, size, o2, s2) != 'disjoint':
                return True
        return False

    def add_havoc(self, st, rname, off, size):
        hv = st.tags.get(('havoc', rname))
        if hv == 'all':
            return
        st.tags[('havoc', rname)] = tuple(hv or ()) + ((off, size),)

    # ---- store ------------------------------------------------------------------------------
    def kill(self, st, r, off, size, ins, exact_key=None):
        """remove / split cells overlapping [off, off+size)"""
        cells = st.cells(r.name)
        if not cells:
            return
        dead = []
        add = []
        for k, (o2, s2, v2) in cells.items():
            if k == exact_key:
                continue
            rel = self.relation(st, off, size, o2, s2) if isinstance(size, int) else \
                ('may' if not self._disjoint_sym(st, off, size, o2, s2) else 'disjoint')
            if rel == 'disjoint':
                continue
            dead.append(k)
            if isinstance(v2, Zero) and rel == 'overlap' and isinstance(size, int):
                d = off.sub(o2).c
                if d > 0:
                    add.append((o2, d, ZERO))
                if d + size < s2:
                    add.append((off.add(size), s2 - d - size, ZERO))
            elif rel == 'may':
                h = self.ctx.hooks
                if h is not None:
                    h.on_forget(st, r, o2, s2, v2, ins)
                self.add_havoc(st, r.name, o2, s2)
        if dead or add:
            w = st.wcells(r.name)
            for k in dead:
                del w[k]
            for (o, s, v) in add:
                w[(o.key(), s)] = (o, s, v)

    def _disjoint_sym(self, st, off, size, o2, s2):
        S = st.store
        return S.entails_ge0(o2.sub(off).sub(size)) or S.entails_ge0(off.sub(o2).sub(s2))

    def store(self, st, ptr, val, ty, ins):
        size = self.mod.sizeof(ty)
        ok, r = self.check(st, 'W', ptr, size, ins)
        h = self.ctx.hooks
        if not ok:
            if h is not None:
                h.on_bad_store(st, ptr, val, ins)
            return
        if h is not None:
            h.on_store(st, r, ptr.off, size, val, ins)
        if r.content != 'cells':
            return
        key = (ptr.off.key(), size)
        self.kill(st, r, ptr.off, size, ins, exact_key=key)
        st.wcells(r.name)[key] = (ptr.off, size, val)

    def memset(self, st, ptr, byte, length, ins):
        """length: Int value"""
        ok, r = self.check(st, 'W', ptr, length.a, ins)
        h = self.ctx.hooks
        if not ok:
            return
        if h is not None:
            h.on_memset(st, r, ptr.off, length, byte, ins)
        if r.content != 'cells':
            return
        S = st.store
        bc = S.const_of(byte.a) if isinstance(byte, Int) else None
        lc = S.const_of(length.a)
        if lc is not None:
            if lc == 0:
                return
            self.kill(st, r, ptr.off, lc, ins)
            if bc == 0:
                st.wcells(r.name)[(ptr.off.key(), lc)] = (ptr.off, lc, ZERO)
            else:
                self.add_havoc(st, r.name, ptr.off, lc)
            return
        whole = S.entails_eq0(ptr.off) and S.entails_eq0(length.a.sub(r.length))
        if whole:
            st.mem[r.name] = {}
            st.owned.add(r.name)
            st.tags.pop(('havoc', r.name), None)
            if bc == 0:
                st.tags[('default', r.name)] = 'zero'
            else:
                st.tags[('default', r.name)] = 'unknown'
                st.tags[('havoc', r.name)] = 'all'
            return
        # partial, symbolic length: forget everything it may touch
        self.kill(st, r, ptr.off, length.a, ins)
        st.tags[('havoc', r.name)] = 'all'
        st.tags[('default', r.name)] = 'unknown'

    def memmove(self, st, dst, src, length, ins):
        okr, rs = self.check(st, 'R', src, length.a, ins)
        okw, rd = self.check(st, 'W', dst, length.a, ins)
        h = self.ctx.hooks
        if h is not None and isinstance(dst, Ptr) and rd is not None:
            h.on_copy(st, rd, dst.off, rs if okr else None, src.off if okr else None, length, ins)
        if okw and rd.content == 'cells':
            lc = st.store.const_of(length.a)
            self.kill(st, rd, dst.off, lc if lc is not None else length.a, ins)
            if lc is None:
                st.tags[('havoc', rd.name)] = 'all'
            elif lc:
                self.add_havoc(st, rd.name, dst.off, lc)
