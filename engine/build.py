"""build: compile /repo's working tree into a private scratch directory.

Nothing is executed; the compilers are only asked for IR, objects and their
side outputs.  The scratch directory is created with mkdtemp and removed by
Scratch.close() (the driver does that in a finally block).
"""
import os
import shutil
import subprocess
import tempfile

REPO = os.environ.get('VERIF_REPO', '/repo')
VERIF = os.path.dirname(os.path.dirname(os.path.abspath(__file__)))
STUBS = os.path.join(VERIF, 'stubs')

C_UNITS = ['src/binson_parser.c', 'src/binson_writer.c']
CPP_UNIT = 'src/binson.cpp'


class BuildError(Exception):
    pass


def run(cmd, cwd=None, ok=(0,)):
    p = subprocess.run(cmd, cwd=cwd, stdout=subprocess.PIPE, stderr=subprocess.PIPE, text=True)
    if p.returncode not in ok:
        raise BuildError('command failed (%d): %s\n%s' % (p.returncode, ' '.join(cmd), p.stderr[-2000:]))
    return p.stdout


class Scratch:
    def __init__(self):
        self.dir = tempfile.mkdtemp(prefix='binson-verif-')
        self._n = 0

    def path(self, name):
        return os.path.join(self.dir, name)

    def close(self):
        shutil.rmtree(self.dir, ignore_errors=True)

    def __enter__(self):
        return self

    def __exit__(self, *a):
        self.close()

    # ---- IR ---------------------------------------------------------------
    def c_ir(self, unit, tag, defs=(), target=None, extra=(), opt='mem2reg,instsimplify', olevel='-O0'):
        """clang-14 -O0 -g IR of one C unit, then opt mem2reg+instsimplify -> path of .ll"""
        base = os.path.basename(unit).replace('.', '_')
        raw = self.path('%s.%s.raw.ll' % (base, tag))
        out = self.path('%s.%s.ll' % (base, tag))
        cmd = ['clang-14', '-std=c99', olevel, '-g', '-S', '-emit-llvm',
               '-I', os.path.join(REPO, 'include')]
        if olevel == '-O0':
            cmd += ['-Xclang', '-disable-O0-optnone']
        if target == 'ilp32':
            cmd += ['--target=armv7m-none-eabi', '-ffreestanding', '-isystem', STUBS]
        for d in defs:
            cmd.append('-D' + d)
        cmd += list(extra)
        cmd += [os.path.join(REPO, unit), '-o', raw]
        run(cmd)
        if opt:
            run(['opt-14', '-S', '-passes=' + opt, raw, '-o', out])
        else:
            shutil.copy(raw, out)
        return out

    def cpp_ir(self, tag, defs=('BINSON_PARSER_WITH_PRINT',), extra=(), olevel='-O0', opt='mem2reg,instsimplify'):
        raw = self.path('binson_cpp.%s.raw.ll' % tag)
        out = self.path('binson_cpp.%s.ll' % tag)
        cmd = ['clang++', '-std=c++11', olevel, '-g', '-S', '-emit-llvm',
               '-I', os.path.join(REPO, 'include')]
        if olevel == '-O0':
            cmd += ['-Xclang', '-disable-O0-optnone']
        for d in defs:
            cmd.append('-D' + d)
        cmd += list(extra)
        cmd += [os.path.join(REPO, CPP_UNIT), '-o', raw]
        run(cmd)
        if opt:
            run(['opt-14', '-S', '-passes=' + opt, raw, '-o', out])
        else:
            shutil.copy(raw, out)
        return out

    def link_ir(self, paths, tag):
        out = self.path('lib.%s.ll' % tag)
        run(['llvm-link-14', '-S'] + list(paths) + ['-o', out])
        return out

    def lib_ir(self, tag, defs=('BINSON_PARSER_WITH_PRINT',), target=None):
        """parser + writer units, each compiled as above, linked into one module"""
        raws = []
        for u in C_UNITS:
            raws.append(self.c_ir(u, tag, defs=defs, target=target))
        return self.link_ir(raws, tag), raws

    # ---- objects ------------------------------------------------------------
    def c_obj(self, unit, cc, olevel, defs=(), su=False, ci=False):
        base = os.path.basename(unit).replace('.', '_')
        self._n += 1
        tag = '%s.%s%s.%d' % (base, cc, olevel, self._n)
        out = self.path(tag + '.o')
        cmd = [cc, '-std=c99', olevel, '-c', '-I', os.path.join(REPO, 'include')]
        for d in defs:
            cmd.append('-D' + d)
        if su:
            cmd.append('-fstack-usage')
        if ci and cc.startswith('gcc'):
            cmd.append('-fcallgraph-info=su')
        cmd += [os.path.join(REPO, unit), '-o', out]
        run(cmd, cwd=self.dir)
        res = {'obj': out}
        sup = out[:-2] + '.su'
        if os.path.exists(sup):
            res['su'] = sup
        cip = out[:-2] + '.ci'
        if os.path.exists(cip):
            res['ci'] = cip
        return res


def tool_versions():
    out = {}
    for t, arg in (('clang-14', '--version'), ('opt-14', '--version'), ('gcc', '--version'), ('nm', '--version'),
                   ('llvm-link-14', '--version')):
        try:
            out[t] = run([t, arg]).strip().split('\n')[0 if t != 'opt-14' and t != 'llvm-link-14' else 1].strip()
        except Exception as e:  # pragma: no cover
            out[t] = 'MISSING: %s' % e
    return out
