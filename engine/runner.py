"""runner: fan the (function, entry disjunct) analyses of absint out over the
cores.  The IR module is compiled and loaded once in the parent; workers are
forked, so they share it.  Each task returns a picklable summary."""
import multiprocessing as mp
import os
import sys
import time
import traceback

from . import irload
from .contracts import Contracts, LibHooks, API
from .common import AnalysisBroken

_G = {}


def ob_record(x):
    """('ob', kind, ok, ins, what, detail, state) -> picklable dict"""
    _, kind, ok, ins, what, detail, st = x
    rec = {'kind': kind, 'ok': ok, 'loc': ins.loc(), 'line': ins.line, 'fn': ins.fn.name if ins.fn else '?',
           'what': what, 'text': ins.text.strip()[:160]}
    if not ok:
        rec['detail'] = detail
        if st is not None:
            rec['path'] = ['%s:%d:%s' % p if p[1] else p[2] for p in st.pathlist()][-14:]
            rec['entry'] = st.tags.get('entry_label')
            chain = []
            for fr in st.frames[1:]:
                chain.append(fr.fn.name)
            rec['chain'] = chain
    return rec


def default_post(C, fname, label, outs, log):
    return None


def _work(task):
    if isinstance(task, int):
        task = _G['tasks'][task]
    fname, label, opts = task
    t0 = time.time()
    if os.environ.get('VERIF_TRACE_TASKS'):
        print('  [task] %s [%s] start' % (fname, label), flush=True)
    budget = int(os.environ.get('VERIF_TASK_BUDGET', '900'))

    def _expired(signum, frame):
        raise AnalysisBroken('the analysis of %s [%s] did not finish within %d s (it does not converge in reasonable time on this tree)' % (fname, label, budget))
    try:
        import signal
        signal.signal(signal.SIGALRM, _expired)
        signal.alarm(budget)
    except (ValueError, AttributeError):
        pass
    try:
        mod = _G['mod']
        hooks_cls = _G['hooks_cls']
        hooks = hooks_cls()
        C = Contracts(mod, hooks)
        hooks.compact_fns = set(opts.get('compact', ()))
        C.I.ctx.limits['cap'] = opts.get('cap', 512)
        if opts.get('setup'):
            opts['setup'](C)
        res = C.run(fname, only=lambda l: l == label)
        outs = res[0][1] if res else []
        post = _G['post']
        extra = post(C, fname, label, outs, hooks.log) if post else None
        obs = [ob_record(x) for x in hooks.log if x[0] == 'ob']
        loops = [(x[1], x[2], {k: v for k, v in x[3].items() if k in ('rounds', 'heads', 'backedges', 'exits')})
                 for x in hooks.log if x[0] == 'loop']
        if os.environ.get('VERIF_TRACE_TASKS'):
            print('  [task] %s [%s] done in %.1fs' % (fname, label, time.time() - t0), flush=True)
        return {'fn': fname, 'label': label, 'ok': True, 'obs': obs, 'loops': loops, 'extra': extra,
                'exits': len(outs), 'stats': dict(C.I.ctx.stats), 'wall': time.time() - t0}
    except AnalysisBroken as e:
        return {'fn': fname, 'label': label, 'ok': False, 'error': 'AnalysisBroken: %s' % e, 'wall': time.time() - t0}
    except Exception as e:
        return {'fn': fname, 'label': label, 'ok': False, 'error': '%s: %s\n%s' % (type(e).__name__, e, traceback.format_exc()[-1500:]),
                'wall': time.time() - t0}
    finally:
        try:
            import signal
            signal.alarm(0)
        except (ValueError, AttributeError):
            pass


def labels_for(mod, fname):
    """entry disjunct labels of fname (cheap: builds the entry states only)"""
    C = Contracts(mod, LibHooks())
    return [l for (l, st, args) in C.entries(fname)]


def run(mod, tasks, hooks_cls=LibHooks, post=None, jobs=None, tolerate=False):
    """tasks: list of (fname, label, opts) -> list of results in task order"""
    _G['mod'] = mod
    _G['hooks_cls'] = hooks_cls
    _G['post'] = post
    _G['tasks'] = tasks
    jobs = jobs or min(16, os.cpu_count() or 4)
    sys.setrecursionlimit(20000)
    if jobs == 1 or len(tasks) == 1:
        out = [_work(t) for t in tasks]
        for r in out:
            if not r['ok'] and not tolerate:
                raise AnalysisBroken('analysis of %s [%s] failed: %s' % (r['fn'], r['label'], r['error']))
        return out
    ctx = mp.get_context('fork')
    with ctx.Pool(jobs) as pool:
        # heavy tasks first for better packing
        order = sorted(range(len(tasks)), key=lambda i: -tasks[i][2].get('weight', 1))
        res = pool.map(_work, order, chunksize=1)
    out = [None] * len(tasks)
    for i, r in zip(order, res):
        out[i] = r
    for r in out:
        if not r['ok'] and not tolerate:
            raise AnalysisBroken('analysis of %s [%s] failed: %s' % (r['fn'], r['label'], r['error']))
    return out


WEIGHT = {'binson_parser_field': 30, 'binson_parser_field_with_length': 30, 'binson_parser_field_ensure': 30,
          'binson_parser_field_ensure_with_length': 30, 'binson_parser_get_raw': 20, 'binson_parser_to_string': 25,
          'binson_parser_print': 15, 'binson_parser_verify': 8, 'binson_parser_to_writer': 22, 'binson_writer_verify': 10,
          'binson_parser_next': 4, 'binson_parser_next_ensure': 4, 'binson_parser_leave_object': 4,
          'binson_parser_leave_array': 4}
