"""Shared plumbing: reports, evidence files, known findings, exit codes."""
import json
import os
import re
import sys
import time

VERIF = os.path.dirname(os.path.dirname(os.path.abspath(__file__)))
EVIDENCE_DIR = os.path.join(VERIF, 'evidence')
REPLAY_DIR = os.path.join(EVIDENCE_DIR, 'replay')
KNOWN_FILE = os.path.join(VERIF, 'known_findings.txt')


class AnalysisBroken(Exception):
    """exit 2: the analysis could not be carried out (never a pass, never a violation)"""


def load_known():
    """-> list of dict(kind, property, site, text)"""
    out = []
    if not os.path.exists(KNOWN_FILE):
        return out
    for line in open(KNOWN_FILE):
        line = line.strip()
        if not line or line.startswith('#'):
            continue
        m = re.match(r'^(known|fixed): property=(\S+)\s+(.*)$', line)
        if not m:
            continue
        kind, pid, rest = m.groups()
        site = None
        sm = re.match(r'^site=(\S+)\s*(.*)$', rest)
        if sm:
            site, rest = sm.groups()
        out.append({'kind': kind, 'property': pid, 'site': site, 'text': rest})
    return out


class Violation:
    def __init__(self, site, message, detail=''):
        self.site = site          # stable key: function:kind:region:operand  (no line numbers)
        self.message = message    # one line, with file:line
        self.detail = detail      # multi-line report (path, unproven inequality ...)


class Report:
    def __init__(self, pid, tier, level):
        self.pid = pid
        self.tier = tier
        self.level = level
        self.t0 = time.time()
        self.violations = []
        self.notes = []
        self.coverage = {}
        self.assumptions = []
        self.obligations = 0
        self.discharged = 0
        self.samples = []
        self.seed = int(os.environ.get('VERIF_SEED', '0') or 0)

    # obligations ---------------------------------------------------------
    def ob(self, ok, site, message, detail='', sample=None):
        """record one obligation; ok=False makes it a violation"""
        self.obligations += 1
        if ok:
            self.discharged += 1
            if sample is not None and len(self.samples) < 12:
                self.samples.append(sample)
        else:
            self.violations.append(Violation(site, message, detail))
        return ok

    def violation(self, site, message, detail=''):
        self.obligations += 1
        self.violations.append(Violation(site, message, detail))

    def note(self, text):
        self.notes.append(text)
        print('NOTE: ' + text)

    # finish ----------------------------------------------------------------
    def finish(self, write_evidence=True):
        known = [k for k in load_known() if k['property'] == self.pid and k['kind'] == 'known']
        unlisted = []
        listed = []
        seen_sites = set()
        for v in self.violations:
            hit = None
            for k in known:
                if k['site'] and k['site'] == v.site:
                    hit = k
                    break
            if hit:
                listed.append((v, hit))
            else:
                unlisted.append(v)
        for v, k in listed:
            if v.site in seen_sites:
                continue
            seen_sites.add(v.site)
            print('KNOWN-FINDING: property=%s site=%s %s' % (self.pid, v.site, k['text']))
        global REPLAY_DIR
        if not write_evidence:
            import tempfile
            REPLAY_DIR = tempfile.mkdtemp(prefix='binson-replay-')
        os.makedirs(REPLAY_DIR, exist_ok=True)
        # remove stale replay files of this property
        for fn in os.listdir(REPLAY_DIR):
            if fn.startswith(self.pid + '-'):
                try:
                    os.unlink(os.path.join(REPLAY_DIR, fn))
                except OSError:
                    pass
        n = 0
        printed = set()
        for v in unlisted:
            n += 1
            rp = os.path.join(REPLAY_DIR, '%s-%d.txt' % (self.pid, n))
            with open(rp, 'w') as fh:
                fh.write('property: %s\nsite: %s\n%s\n\n%s\n' % (self.pid, v.site, v.message, v.detail))
            if n <= 40:
                print('  %s' % v.message)
                print('VIOLATION property=%s replay=%s' % (self.pid, rp))
        if n > 40:
            print('  ... %d more violations (replay files written)' % (n - 40))
        cov = dict(self.coverage)
        cov.setdefault('obligations', self.obligations)
        cov.setdefault('discharged', self.discharged + len(listed))
        cov.setdefault('samples', self.samples if self.samples else [{'note': 'no sample recorded'}])
        cov.setdefault('checker_cmd', './check %s --tier %s' % (self.pid, self.tier))
        cov.setdefault('trusted_base', [])
        cov.setdefault('explanation', '')
        if self.notes:
            cov['notes'] = self.notes
        if listed:
            cov['known_findings_matched'] = sorted(seen_sites)
        ev = {
            'property_id': self.pid,
            'tier': self.tier,
            'seed': self.seed,
            'level': self.level,
            'coverage': cov,
            'assumptions': self.assumptions,
            'wall_s': round(time.time() - self.t0, 3),
            'violations': len(unlisted),
        }
        if write_evidence:
            os.makedirs(EVIDENCE_DIR, exist_ok=True)
            with open(os.path.join(EVIDENCE_DIR, self.pid + '.json'), 'w') as fh:
                json.dump(ev, fh, indent=1, sort_keys=True, default=str)
                fh.write('\n')
        else:
            import shutil
            shutil.rmtree(REPLAY_DIR, ignore_errors=True)
        print('%s [%s]: %d obligations, %d discharged, %d known, %d violations, %.1fs' % (
            self.pid, self.tier, self.obligations, self.discharged, len(listed), len(unlisted), time.time() - self.t0))
        return 1 if unlisted else 0


def need(cond, msg):
    if not cond:
        raise AnalysisBroken(msg)
