"""C17 - no heap, no recursion, no writable globals, constant stack.

Decided by enumeration over object code and IR of every build configuration:
undefined symbols, data symbols, stack-usage records, call-graph SCCs.
Nothing is run.
"""
import re
import subprocess

from engine import build, irload
from engine.common import need, AnalysisBroken

ALLOWED_UNDEF = {
    'memset', 'memcmp', 'bcmp', 'memmove', 'memcpy', 'strlen', 'printf', 'snprintf', 'putchar', 'puts',
    '__stack_chk_fail', '_GLOBAL_OFFSET_TABLE_',
}
DENY = {'malloc', 'calloc', 'realloc', 'free', 'alloca', 'strdup', 'strndup', 'aligned_alloc', 'posix_memalign',
        'mmap', 'sbrk', 'brk', 'valloc', 'memalign', '_Znwm', '_Znam', '_ZdlPv', '_ZdaPv', 'reallocarray',
        'asprintf', 'vasprintf', 'open_memstream', 'fopen', 'fmemopen', 'getline', 'getdelim', 'tmpfile'}
WRITABLE_TYPES = set('bBdDCsSgGvVwWuUi')
ALLOWED_IR_EXTERNALS = ALLOWED_UNDEF | {'llvm.memset.p0i8.i64', 'llvm.memmove.p0i8.p0i8.i64', 'llvm.memcpy.p0i8.p0i8.i64',
                                        'llvm.memset.p0i8.i32', 'llvm.memmove.p0i8.p0i8.i32', 'llvm.memcpy.p0i8.p0i8.i32',
                                        'llvm.dbg.declare', 'llvm.dbg.value'}
# library API of the *other* unit the writer legitimately links against
CROSS_UNIT = {'binson_parser_get_raw', 'binson_parser_init_object', 'binson_parser_verify'}

MIN_FUNCS = {'binson_parser_c': 30, 'binson_writer_c': 18}


def nm(obj, undefined=False):
    out = subprocess.run(['nm'] + (['-u'] if undefined else []) + [obj], stdout=subprocess.PIPE, text=True, check=True).stdout
    res = []
    for line in out.splitlines():
        parts = line.split()
        if len(parts) == 2:
            res.append((parts[0], parts[1]))
        elif len(parts) == 3:
            res.append((parts[1], parts[2]))
    return res


def sccs(nodes, edges):
    """Tarjan; returns list of SCCs (each a list)"""
    index = {}
    low = {}
    onst = set()
    st = []
    out = []
    cnt = [0]

    def visit(v):
        work = [(v, iter(sorted(edges.get(v, ()))))]
        index[v] = low[v] = cnt[0]
        cnt[0] += 1
        st.append(v)
        onst.add(v)
        while work:
            x, it = work[-1]
            adv = False
            for w in it:
                if w not in nodes:
                    continue
                if w not in index:
                    index[w] = low[w] = cnt[0]
                    cnt[0] += 1
                    st.append(w)
                    onst.add(w)
                    work.append((w, iter(sorted(edges.get(w, ())))))
                    adv = True
                    break
                elif w in onst:
                    low[x] = min(low[x], index[w])
            if not adv:
                work.pop()
                if work:
                    low[work[-1][0]] = min(low[work[-1][0]], low[x])
                if low[x] == index[x]:
                    comp = []
                    while True:
                        w = st.pop()
                        onst.discard(w)
                        comp.append(w)
                        if w == x:
                            break
                    out.append(comp)
    for v in sorted(nodes):
        if v not in index:
            visit(v)
    return out


def parse_ci(path):
    nodes = {}
    edges = {}
    for line in open(path):
        m = re.match(r'^node: \{ title: "([^"]*)" label: "([^"]*)"', line)
        if m:
            nodes[m.group(1)] = m.group(2)
            continue
        m = re.match(r'^edge: \{ sourcename: "([^"]*)" targetname: "([^"]*)"', line)
        if m:
            edges.setdefault(m.group(1), set()).add(m.group(2))
    return nodes, edges


def ir_facts(rep, mod, cfgname):
    """IR-level obligations of one module"""
    unit = cfgname
    # globals constant
    for gname, g in mod.globals.items():
        rep.ob(g.get('constant', False), '%s:writable-global:%s' % (unit.split('/')[0], gname),
               'C17 writable global @%s in %s (%s)' % (gname, mod.srcfile, cfgname),
               g.get('text', ''), sample={'global': gname, 'constant': True, 'cfg': cfgname})
    # allocas: constant size, entry block; no stacksave
    for fn in mod.functions.values():
        for ins in fn.instructions():
            if ins.op == 'alloca':
                const = ins.attrs['count'] is None or ins.attrs['count'][1][0] == 'int'
                entry = ins.block is fn.entry
                rep.ob(const and entry, '%s:%s:vla' % (unit.split('/')[0], fn.name),
                       'C17 variable-size or non-entry alloca at %s in %s (%s)' % (ins.loc(), fn.name, cfgname), ins.text)
            if ins.op in ('call', 'invoke'):
                cal = ins.attrs['callee']
                if cal[0] == 'global':
                    nm_ = cal[1]
                    if nm_ in ('llvm.stacksave', 'llvm.stackrestore'):
                        rep.violation('%s:%s:vla' % (unit.split('/')[0], fn.name),
                                      'C17 dynamic stack object (llvm.stacksave) at %s in %s' % (ins.loc(), fn.name), ins.text)
                    if nm_ not in mod.functions:
                        ok = nm_ in ALLOWED_IR_EXTERNALS or nm_ in CROSS_UNIT
                        msg = 'C17 call to %s%s at %s in %s (%s)' % (
                            'allocator ' if nm_ in DENY else 'non-allow-listed external ', nm_, ins.loc(), fn.name, cfgname)
                        rep.ob(ok, '%s:%s:extern:%s' % (unit.split('/')[0], fn.name, nm_), msg, ins.text)
    # call graph: direct edges + every indirect site may reach every address-taken function
    edges, indirect, addr_taken = mod.callgraph()
    edges = {k: set(v) for k, v in edges.items()}
    for ins in indirect:
        edges.setdefault(ins.fn.name, set()).update(addr_taken)
    nodes = set(mod.functions)
    comps = sccs(nodes, edges)
    cyc = [c for c in comps if len(c) > 1 or (c[0] in edges.get(c[0], ()))]
    rep.ob(not cyc, '%s:recursion:%s' % (unit.split('/')[0], '+'.join(sorted(cyc[0])) if cyc else ''),
           'C17 recursion in %s (%s): cycle through %s' % (mod.srcfile, cfgname, ', '.join(sorted(cyc[0])) if cyc else ''),
           '\n'.join(', '.join(c) for c in cyc),
           sample={'callgraph': cfgname, 'functions': len(nodes), 'edges': sum(len(v) for v in edges.values()),
                   'indirect_sites': len(indirect), 'address_taken': sorted(addr_taken), 'nontrivial_sccs': 0})
    return edges, nodes


def run(rep, tier):
    rep.level = 'proof'
    cfgs = []
    ccs = [('gcc', '-O2'), ('gcc', '-Os'), ('clang-14', '-O0')]
    if tier == 'thorough':
        ccs = [('gcc', '-O0'), ('gcc', '-O2'), ('gcc', '-Os'), ('clang-14', '-O0'), ('clang-14', '-O2'), ('clang-14', '-Os')]
    printcfg = [('print', ('BINSON_PARSER_WITH_PRINT',)), ('noprint', ())]
    stack_paths = {}
    nobj = 0
    with build.Scratch() as sc:
        # ---- IR facts (per print config, per unit; thorough adds ILP32)
        targets = [None] + (['ilp32'] if tier == 'thorough' else [])
        for tgt in targets:
            for pname, defs in printcfg:
                for unit in build.C_UNITS:
                    tag = '%s.%s' % (pname, tgt or 'lp64')
                    ll = sc.c_ir(unit, tag, defs=defs, target=tgt)
                    mod = irload.load(ll)
                    base = unit.split('/')[-1].replace('.', '_')
                    need(len(mod.functions) >= MIN_FUNCS[base] - (4 if pname == 'noprint' and 'parser' in base else 0),
                         'C17: only %d functions found in %s (%s)' % (len(mod.functions), unit, tag))
                    ir_facts(rep, mod, '%s/%s' % (base, tag))
                    cfgs.append('%s ir %s' % (unit, tag))
        # ---- linked library: cross-unit recursion
        lib, _ = sc.lib_ir('c17lib')
        mod = irload.load(lib)
        edges, nodes = ir_facts(rep, mod, 'lib/print.lp64')
        # ---- object facts
        for cc, ol in ccs:
            for pname, defs in printcfg:
                for unit in build.C_UNITS:
                    base = unit.split('/')[-1].replace('.', '_')
                    r = sc.c_obj(unit, cc, ol, defs=defs, su=True, ci=True)
                    nobj += 1
                    cfg = '%s %s %s %s' % (unit, cc, ol, pname)
                    cfgs.append(cfg)
                    und = [s for t, s in nm(r['obj'], undefined=True)]
                    for s in und:
                        ok = s in ALLOWED_UNDEF or (base == 'binson_writer_c' and s in CROSS_UNIT)
                        rep.ob(ok, '%s:undef:%s' % (base, s),
                               'C17 %s references %s symbol %s (%s)' % (unit, 'allocator' if s in DENY else 'non-allow-listed', s, cfg),
                               'nm -u output: %s' % ' '.join(und), sample={'cfg': cfg, 'undefined': s, 'allowed': True})
                    for t, s in nm(r['obj']):
                        if t in ('U', 'w') and t == 'U':
                            continue
                        bad = t in WRITABLE_TYPES
                        rep.ob(not bad, '%s:data-symbol:%s' % (base, s),
                               'C17 %s defines writable/static data symbol %s (nm type %s) (%s)' % (unit, s, t, cfg), '')
                    if 'su' in r:
                        su = {}
                        for line in open(r['su']):
                            parts = line.rstrip('\n').split('\t')
                            if len(parts) >= 3:
                                fname = parts[0].split(':')[-1]
                                su[fname] = int(parts[1])
                                rep.ob(parts[2] == 'static', '%s:%s:stack-dynamic' % (base, fname),
                                       'C17 stack usage of %s is %s, not static (%s)' % (fname, parts[2], cfg), line,
                                       sample={'cfg': cfg, 'function': fname, 'bytes': int(parts[1]), 'kind': parts[2]})
                        need(len(su) >= 5, 'C17: stack-usage file for %s has %d records' % (cfg, len(su)))
                        stack_paths[cfg] = su
                    if 'ci' in r:
                        cn, ce = parse_ci(r['ci'])
                        comps = sccs(set(cn), ce)
                        cyc = [c for c in comps if len(c) > 1 or c[0] in ce.get(c[0], ())]
                        rep.ob(not cyc, '%s:recursion-ci' % base,
                               'C17 gcc call graph of %s has a cycle: %s (%s)' % (unit, cyc[0] if cyc else '', cfg), '')
                        # indirect calls are reported by gcc as __indirect_call nodes
        # ---- worst-case stack path (reported, not thresholded), on gcc -O2/-Os print
        worst = {}
        for cfg, su in stack_paths.items():
            if 'gcc' not in cfg:
                continue
            worst[cfg] = max(su.values()) if su else 0
        # longest path over IR call graph using gcc -Os numbers of both units where available
        def longest(su_all):
            memo = {}

            def go(f, seen=()):
                if f in memo:
                    return memo[f]
                best = (su_all.get(f, 0), [f])
                for g in sorted(edges.get(f, ())):
                    if g in nodes and g not in seen:
                        d, p = go(g, seen + (f,))
                        if su_all.get(f, 0) + d > best[0]:
                            best = (su_all.get(f, 0) + d, [f] + p)
                memo[f] = best
                return best
            res = (0, [])
            for f in sorted(nodes):
                r = go(f)
                if r[0] > res[0]:
                    res = r
            return res
        for ol in ('-O2', '-Os'):
            su_all = {}
            for cfg, su in stack_paths.items():
                if ('gcc %s print' % ol) in cfg:
                    su_all.update(su)
            if su_all:
                d, p = longest(su_all)
                rep.coverage.setdefault('worst_case_stack', {})['gcc %s print' % ol] = {'bytes': d, 'path': p}
    need(nobj >= 12, 'C17: only %d objects analysed' % nobj)
    rep.coverage.update({
        'configurations': cfgs,
        'objects': nobj,
        'rule': 'per object: nm -u subset of allow-list, no writable data symbol, every .su record static, gcc .ci acyclic; '
                'per IR module: every global constant, every alloca constant-size in entry block, direct+indirect call graph has no SCC',
        'exhaustive': True,
        'trusted_base': ['clang-14/gcc object emission', 'binutils nm', 'gcc -fstack-usage/-fcallgraph-info', 'engine/irload.py'],
        'explanation': 'enumeration over all symbols / records / call-graph SCCs of every compiled configuration',
    })
    rep.assumptions += ['the libc functions on the allow-list do not allocate on behalf of the library '
                        '(printf/snprintf may use their own internal buffers; that is outside the library)']
