"""C15 - the C++ wrapper never acts on an unchecked parser (R1, R2, R3 of DESIGN.md).

Decided on the LLVM IR of src/binson.cpp (callees are resolved symbols, not
text): which parser results are tested, which uses of a local parser are
dominated by a successful init, and that every next()-driven loop is followed
by a latch check before the function returns normally.
"""
import subprocess

from engine import build, irload, flow
from engine.common import need

MUST_CHECK = {'binson_parser_init_object', 'binson_parser_init_array', 'binson_parser_reset', 'binson_parser_verify',
              'binson_parser_go_into_object', 'binson_parser_go_into_array',
              'binson_parser_leave_object', 'binson_parser_leave_array'}
INIT = {'binson_parser_init_object', 'binson_parser_init_array'}
LEAVE = {'binson_parser_leave_object', 'binson_parser_leave_array'}
MIN_R1_SITES = 6
MIN_LOOPS = 2
MIN_LOCAL_PARSERS = 2


def demangle(names):
    names = list(names)
    if not names:
        return {}
    out = subprocess.run(['llvm-cxxfilt-14'] + names, stdout=subprocess.PIPE, text=True).stdout.split('\n')
    return dict(zip(names, out))


def assert_like(fn):
    """function(bool b, ...) whose normal return is reachable only when b is true"""
    if not fn.params or fn.params[0][0] != ('int', 1):
        return False
    p0 = fn.params[0][1]
    ent = fn.entry
    t = ent.term()
    if t.op != 'br' or len(t.attrs['targets']) != 2:
        return False
    c = t.ops[0][1]
    if c != ('local', p0):
        return False
    tt, ff = t.attrs['targets']
    bad = flow.reachable_blocks(fn, ff)
    rets = [b for b in bad if fn.blocks[b].term().op == 'ret']
    good = any(fn.blocks[b].term().op == 'ret' for b in flow.reachable_blocks(fn, tt))
    return good and not rets


def state_check_like(mod, fn, err_index):
    """function(binson_parser *p, ...) that returns normally only if p->error_flags == 0"""
    if not fn.params or fn.params[0][0] != ('ptr', ('named', 'struct.binson_parser_s')):
        return False
    p0 = fn.params[0][1]
    for ins in fn.instructions():
        if ins.op == 'br' and len(ins.attrs['targets']) == 2:
            c = ins.ops[0][1]
            if c[0] != 'local':
                continue
            d = fn.defs.get(c[1])
            if d is None or d.op != 'icmp' or d.attrs['pred'] not in ('ne', 'eq'):
                continue
            a, b = d.ops[0][1], d.ops[1][1]
            if b[0] != 'int':
                a, b = b, a
            if b != ('int', 0) or a[0] != 'local':
                continue
            ld = fn.defs.get(a[1])
            if ld is None or ld.op != 'load':
                continue
            g = ld.ops[0][1]
            gd = fn.defs.get(g[1]) if g[0] == 'local' else None
            if gd is None or gd.op != 'getelementptr' or gd.ops[0][1] != ('local', p0):
                continue
            idx = [v[1] for (t, v) in gd.ops[1:]]
            if idx != [0, err_index]:
                continue
            tt, ff = ins.attrs['targets']
            err_edge = tt if d.attrs['pred'] == 'ne' else ff
            ok_edge = ff if d.attrs['pred'] == 'ne' else tt
            if ins.block is not fn.entry:
                continue
            bad = flow.reachable_blocks(fn, err_edge)
            if any(fn.blocks[x].term().op == 'ret' for x in bad):
                continue
            if any(fn.blocks[x].term().op == 'ret' for x in flow.reachable_blocks(fn, ok_edge)):
                return True
    return False


def result_checks(fn, ins, um, asserts):
    """how is the i1 result of call `ins` consumed?  -> list of ('br', instr, polarity) /
    ('assert', instr) / ('ret', instr) and list of other sinks"""
    checks = []
    others = []
    if ins.res is None:
        return checks, others
    # forward through zext/trunc/xor/phi/select/icmp-with-constant
    work = [(ins.res, True)]
    seen = set()
    while work:
        name, pol = work.pop()
        if (name, pol) in seen:
            continue
        seen.add((name, pol))
        for u in um.get(name, ()):
            if u.op in ('zext', 'trunc', 'freeze', 'phi', 'select', 'and', 'or') and u.res:
                work.append((u.res, pol))
            elif u.op == 'xor' and u.res:
                work.append((u.res, not pol))
            elif u.op == 'icmp' and u.res:
                other = [v for (t, v) in u.ops if v != ('local', name)]
                if other and other[0][0] == 'int':
                    k = other[0][1]
                    p = u.attrs['pred']
                    same = (p == 'ne' and k == 0) or (p == 'eq' and k != 0)
                    work.append((u.res, pol if same else not pol))
                else:
                    others.append(u)
            elif u.op == 'br' and u.ops and u.ops[0][1] == ('local', name):
                checks.append(('br', u, pol))
            elif u.op == 'switch':
                checks.append(('br', u, pol))
            elif u.op in ('call', 'invoke'):
                cn = flow.callee_name(u)
                if cn in asserts and u.ops and u.ops[0][1] == ('local', name) and pol:
                    checks.append(('assert', u, pol))
                else:
                    others.append(u)
            elif u.op == 'ret':
                checks.append(('ret', u, pol))
            else:
                others.append(u)
    return checks, others


def check_dominates(fn, chk, user):
    """does the success side of check `chk` dominate instruction `user`?"""
    kind, k, pol = chk
    if kind == 'assert':
        if k.op == 'call':
            return fn.instr_dominates(k, user)
        return flow.edge_dominates(fn, k.block.name, k.attrs['normal'], user.block.name) or \
            fn.dominates(k.attrs['normal'], user.block.name) and fn.blocks[k.attrs['normal']].preds == [k.block.name]
    if kind == 'br' and k.op == 'br':
        tt, ff = k.attrs['targets']
        succ = tt if pol else ff
        return flow.edge_dominates(fn, k.block.name, succ, user.block.name)
    return False


def run(rep, tier):
    rep.level = 'other'
    with build.Scratch() as sc:
        cfgs = [('print', ('BINSON_PARSER_WITH_PRINT',))] + ([('noprint', ())] if tier == 'thorough' else [])
        totals = {'r1_sites': 0, 'r2_uses': 0, 'r3_loops': 0, 'local_parsers': 0}
        for cname, defs in cfgs:
            ll = sc.cpp_ir(cname, defs=defs)
            mod = irload.load(ll)
            fields = mod.di_struct_fields('binson_parser_s')
            need(fields, 'C15: no debug info for binson_parser_s in binson.cpp')
            names = [f[0] for f in fields]
            need('error_flags' in names, 'C15: binson_parser_s has no field error_flags')
            err_index = names.index('error_flags')
            dm = demangle(mod.functions.keys())
            asserts = {n for n, f in mod.functions.items() if assert_like(f)}
            statechecks = {n for n, f in mod.functions.items() if state_check_like(mod, f, err_index)}
            need(asserts, 'C15: no assert-like helper (ifRuntimeError) recognised in binson.cpp')
            need(statechecks, 'C15: no parser-state check helper (CheckParserState) recognised in binson.cpp')
            rep.coverage.setdefault('helpers', {})[cname] = {
                'assert_like': sorted(dm[n] for n in asserts), 'state_check_like': sorted(dm[n] for n in statechecks)}
            r1_sites = 0
            r3_loops = 0
            # access specifiers of member functions, from debug info (private helpers are not entry points)
            private = {}
            for mid, (kind, d) in mod.md.items():
                if kind == 'DISubprogram' and 'linkageName' in d:
                    ln = d['linkageName'].strip('"')
                    fl = d.get('flags', '')
                    if 'DIFlagPrivate' in fl or 'DIFlagProtected' in fl:
                        private[ln] = True
                    elif 'DIFlagPublic' not in fl and 'declaration' not in d:
                        # members of a `class` are private unless declared public (DWARF omits the default access)
                        sc_ = mod.md.get(d.get('scope', ''))
                        if sc_ and sc_[0] == 'DICompositeType' and sc_[1].get('tag') == 'DW_TAG_class_type':
                            private[ln] = True
            for fname, fn in mod.functions.items():
                um = None
                pretty = dm.get(fname, fname)
                short = pretty.split('(')[0]
                calls = [i for i in fn.instructions() if flow.callee_name(i) and flow.callee_name(i).startswith('binson_parser_')]
                if not calls:
                    continue
                um = flow.uses_map(fn)
                checked = {}
                # ---- R1
                for ins in calls:
                    cn = flow.callee_name(ins)
                    if cn not in MUST_CHECK:
                        continue
                    r1_sites += 1
                    chks, others = result_checks(fn, ins, um, asserts)
                    checked[id(ins)] = chks
                    rep.ob(bool(chks), 'binson.cpp:%s:R1:%s' % (short, cn),
                           'C15/R1 %s: result of %s() is not tested (src/binson.cpp:%d, in %s)' % (cname, cn, ins.line, pretty),
                           'rule R1: every result of init/reset/verify/go_into/leave must reach a conditional branch, '
                           'an assert-like helper or be returned.\ninstruction: %s' % ins.text,
                           sample={'rule': 'R1', 'site': 'src/binson.cpp:%d' % ins.line, 'callee': cn, 'function': pretty,
                                   'checked_by': [c[0] + '@%d' % c[1].line for c in chks]})
                # ---- R2
                for a in fn.instructions():
                    if a.op != 'alloca' or a.attrs['aty'] != ('named', 'struct.binson_parser_s'):
                        continue
                    totals['local_parsers'] += 1
                    der = flow.derived_from(fn, a.res)
                    users = [i for i in fn.instructions() if i.op in ('call', 'invoke') and
                             any(v[0] == 'local' and v[1] in der for (t, v) in i.ops)]
                    inits = [i for i in users if flow.callee_name(i) in INIT]
                    for u in users:
                        if u in inits:
                            continue
                        if flow.callee_name(u) and flow.callee_name(u).startswith('llvm.'):
                            continue
                        totals['r2_uses'] += 1
                        ok = False
                        for i in inits:
                            for chk in checked.get(id(i), ()):
                                if check_dominates(fn, chk, u):
                                    ok = True
                        rep.ob(ok, 'binson.cpp:%s:R2:%s' % (short, flow.callee_name(u) or 'indirect'),
                               'C15/R2 %s: local parser used by %s() without a dominating successful init check '
                               '(src/binson.cpp:%d, in %s)' % (cname, dm.get(flow.callee_name(u), flow.callee_name(u)), u.line, pretty),
                               'rule R2: every call that receives a local binson_parser must be dominated by the success '
                               'edge of a test of that parser\'s init result.\ninit sites: %s\ninstruction: %s' % (
                                   ', '.join('line %d' % i.line for i in inits) or 'none', u.text),
                               sample={'rule': 'R2', 'site': 'src/binson.cpp:%d' % u.line, 'use': flow.callee_name(u),
                                       'function': pretty})
                # ---- R4: a public function that receives a parser from its caller must bring it into a known state first
                if not private.get(fname, False):
                    for pi, (pty, pname) in enumerate(fn.params):
                        if pty != ('ptr', ('named', 'struct.binson_parser_s')):
                            continue
                        der = flow.derived_from(fn, pname)
                        users = [i for i in fn.instructions() if i.op in ('call', 'invoke') and
                                 any(v[0] == 'local' and v[1] in der for (t, v) in i.ops)]
                        resets = [i for i in users if flow.callee_name(i) in ('binson_parser_reset', 'binson_parser_verify',
                                                                           'binson_parser_init_object', 'binson_parser_init_array')]
                        for u in users:
                            if u in resets or (flow.callee_name(u) or '').startswith('llvm.'):
                                continue
                            totals['r4_uses'] = totals.get('r4_uses', 0) + 1
                            ok = False
                            for i in resets:
                                for chk in checked.get(id(i), ()):
                                    if check_dominates(fn, chk, u):
                                        ok = True
                            rep.ob(ok, 'binson.cpp:%s:R4:%s' % (short, flow.callee_name(u) or 'indirect'),
                                   'C15/R4 %s: public %s uses the caller\'s parser (%s at src/binson.cpp:%d) before a checked reset/verify brought it '
                                   'into a known state' % (cname, pretty, dm.get(flow.callee_name(u), flow.callee_name(u)), u.line),
                                   'rule R4: a public function receiving a binson_parser* must start with a checked binson_parser_reset/verify; '
                                   'otherwise it acts on whatever state (possibly uninitialised or mid-traversal) the parser is in.',
                                   sample={'rule': 'R4', 'site': 'src/binson.cpp:%d' % u.line, 'function': pretty})
                # ---- R3
                loops = fn.loops()
                for ins in calls:
                    if flow.callee_name(ins) != 'binson_parser_next':
                        continue
                    chks, _ = result_checks(fn, ins, um, asserts)
                    for (kind, br, pol) in chks:
                        if kind != 'br' or br.op != 'br':
                            continue
                        tt, ff = br.attrs['targets']
                        for lp in loops:
                            if br.block.name not in lp['body']:
                                continue
                            inside = [s for s in (tt, ff) if s in lp['body']]
                            outside = [s for s in (tt, ff) if s not in lp['body']]
                            if len(inside) != 1 or len(outside) != 1:
                                continue
                            r3_loops += 1
                            # must-pass-through: from the exit block, every path to `ret` meets a latch check
                            blocked = set()
                            for bn, b in fn.blocks.items():
                                for j in b.instrs:
                                    cn = flow.callee_name(j)
                                    if cn in statechecks:
                                        blocked.add(bn)
                                    elif cn in LEAVE and any(c[0] in ('assert', 'br', 'ret') for c in checked.get(id(j), ())):
                                        blocked.add(bn)
                            reach = flow.reachable_blocks(fn, outside[0], blocked)
                            leak = [b for b in reach if fn.blocks[b].term().op == 'ret']
                            rep.ob(not leak, 'binson.cpp:%s:R3' % short,
                                   'C15/R3 %s: loop driven by binson_parser_next() (src/binson.cpp:%d, in %s) can return '
                                   'normally without a parser-state check' % (cname, ins.line, pretty),
                                   'rule R3: after a next()-loop ends, the latched error must be tested (CheckParserState or a '
                                   'checked leave_*) on every path to a normal return.\nunchecked return blocks: %s' % leak,
                                   sample={'rule': 'R3', 'site': 'src/binson.cpp:%d' % ins.line, 'function': pretty})
            need(r1_sites >= MIN_R1_SITES, 'C15: only %d result-bearing parser calls found (expected >= %d)' % (r1_sites, MIN_R1_SITES))
            need(r3_loops >= MIN_LOOPS, 'C15: only %d next()-driven loops found (expected >= %d)' % (r3_loops, MIN_LOOPS))
            totals['r1_sites'] += r1_sites
            totals['r3_loops'] += r3_loops
        need(totals['local_parsers'] >= MIN_LOCAL_PARSERS, 'C15: only %d local parser objects found' % totals['local_parsers'])
    rep.coverage.update({
        'rule_instances': totals,
        'explanation': 'R1 checked-results, R2 init-dominates-use, R3 latch check after next() loops, on the IR of src/binson.cpp; '
                       'decides "never acts on an unchecked/uninitialised parser", not the round-trip equalities',
        'rule': 'R1/R2/R3 of DESIGN.md section 4 C15; helpers recognised by shape (normal return only if argument true / error flag clear)',
        'trusted_base': ['clang++ -O0 IR + mem2reg', 'engine/irload.py', 'engine/flow.py'],
    })
    rep.assumptions.append('round-trip equalities (serialize/deserialize) are value-level and not decided')
