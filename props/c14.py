"""C14 - the clause "byte for byte what binson_parser_print writes": the two token callbacks are
abstractly evaluated for every (token kind, separator state, in-array?) combination and must produce the
same emit traces (format strings + which state field feeds each conversion) and the same successor
separator state.  Faithfulness to a reference rendering is NOT decided."""
import re

from engine import build, irload
from engine.contracts import Contracts, LibHooks, Layout
from engine.absval import Int, Ptr, Null, Top, Region, Fn, NULL
from engine.lin import Aff
from engine.common import need, AnalysisBroken

INT32_MAX = (1 << 31) - 1
PSTATES = [0, 1, 2, 3, 4, 5, 6]


def describe(st, v):
    """printf argument -> stable description (symbol numbering removed, origins instead of names)"""
    if isinstance(v, Int):
        c = st.store.const_of(v.a)
        if c is not None:
            return 'const:%d' % c
        parts = []
        for s_, k in sorted(v.a.t.items()):
            info = st.syminfo.get(s_)
            o = info.origin if info else s_
            if info is not None and info.defn and info.defn[0] in ('trunc', 'sext'):
                inner = info.defn[1]
                o = '%s(%s)' % (info.defn[0], '+'.join(sorted(st.syminfo[z].origin if z in st.syminfo else z for z in inner.t)))
            parts.append('%s*%d' % (o, k) if k != 1 else o)
        return 'int:' + '+'.join(parts) + ('%+d' % v.a.c if v.a.c else '')
    if isinstance(v, Ptr):
        if v.region.startswith('@'):
            return 'global:' + v.region
        offs = '+'.join(sorted((st.syminfo[z].origin if z in st.syminfo else z) for z in v.off.t))
        return 'ptr:%s[%s%s]' % (v.region, offs, '%+d' % v.off.c if v.off.c else '')
    if isinstance(v, Null):
        return 'null'
    if isinstance(v, Top):
        return 'top:' + v.kind
    return repr(v)


class EmitHooks(LibHooks):
    pass


def _pstate_value(st, pstate):
    """separator state: ('exact', v) -> exactly v; 0..5 -> that constant; 6 -> any other value"""
    if isinstance(pstate, tuple):
        return Int(8, Aff(pstate[1]))
    return Int(8, Aff(pstate)) if pstate <= 5 else st.fresh_int('c14:PSTATE_OTHER', 8, 6, 255)


def entry_state(C, ctxkind, next_state, pstate, in_array, cbname, bool_byte=None):
    """abstract state in which a token callback is invoked"""
    lay = C.lay
    st = C.I.new_state()
    w8 = lay.parser['depth'][1] * 8
    md = st.fresh('cfg:max_depth', w8, 1, 255 if w8 == 8 else lay.objmax // lay.ssize)
    bs = st.fresh('cfg:buffer_size', lay.szw, 2, lay.objmax)
    C.parser_regions(st, Aff.sym(bs), Aff.sym(md))
    F = lay.parser

    def put(name, v):
        C.setcell(st, 'P', F[name][0], F[name][1], v)
    put('type', st.fresh_int('cfg:type', F['type'][1] * 8, 1, 2))
    put('max_depth', Int(w8, Aff.sym(md)))
    put('buffer_size', Int(lay.szw, Aff.sym(bs)))
    put('buffer', Ptr('BUF', Aff(0)))
    put('state', Ptr('STATE', Aff(0)))
    put('buffer_used', st.fresh_int('c14:used', lay.szw, 0, lay.objmax))
    put('error_flags', Int(32, Aff(0)))
    put('depth', Int(w8, Aff(1)))
    put('current_state', Ptr('STATE', Aff(0)))
    put('cb', Fn(cbname))
    st.tags[('default', 'STATE')] = 'unknown'
    st.tags['J'] = False
    S = lay.state
    P = lay.ptr

    def cell(off, size, v):
        o = Aff(off)
        st.wcells('STATE')[(o.key(), size)] = (o, size, v)
    # current_name: a span inside the buffer
    nl = st.fresh('c14:NAME_LEN', lay.szw, 0, INT32_MAX)
    no = st.fresh('c14:NAME_OFF', lay.szw, 0, lay.objmax)
    st.store.assume_ge0(Aff.sym(bs).sub(Aff.sym(no)).sub(Aff.sym(nl)))
    cell(S['current_name'][0] + lay.bbuf['bsize'][0], P, Int(lay.szw, Aff.sym(nl)))
    cell(S['current_name'][0] + lay.bbuf['bptr'][0], P, Ptr('BUF', Aff.sym(no)))
    # current_value: first word (length / integer / bool / double bits), second word (pointer)
    vl = st.fresh('c14:VALUE_WORD0', lay.szw if lay.bbuf['bsize'][1] == P else 64, 0, INT32_MAX)
    vo = st.fresh('c14:VALUE_OFF', lay.szw, 0, lay.objmax)
    st.store.assume_ge0(Aff.sym(bs).sub(Aff.sym(vo)).sub(Aff.sym(vl)))
    cell(S['current_value'][0] + lay.bbuf['bsize'][0], P, Int(P * 8, Aff.sym(vl)))
    cell(S['current_value'][0] + lay.bbuf['bptr'][0], P, Ptr('BUF', Aff.sym(vo)))
    if bool_byte is not None:
        # a boolean value: the first byte of the value union is a known constant
        o_ = Aff(S['current_value'][0])
        st.wcells('STATE').pop((o_.key(), P), None)
        st.wcells('STATE')[(o_.key(), 1)] = (o_, 1, Int(8, Aff(bool_byte)))
    adw = S['array_depth'][1] * 8
    if in_array is True:
        adv = st.fresh_int('c14:ARRAY_DEPTH', adw, 1, 255)
    else:
        adv = Int(adw, Aff(int(in_array)))        # False -> 0; an integer -> exactly that array depth
    cell(S['array_depth'][0], S['array_depth'][1], adv)
    # context object
    if ctxkind == 'print':
        st.add_region(Region('CTX', 'obj', Aff(1)))
        st.mem['CTX'] = {}
        st.owned.add('CTX')
        pv = _pstate_value(st, pstate)
        C.setcell(st, 'CTX', 0, 1, pv)
    else:
        f = {n: (o, s) for (n, o, s) in C.mod.di_struct_fields('_to_string_ctx')}
        size = C.mod.sizeof(('named', 'struct._to_string_ctx'))
        st.add_region(Region('CTX', 'obj', Aff(size)))
        st.mem['CTX'] = {}
        st.owned.add('CTX')
        cap = st.fresh('c14:CAPACITY', lay.szw, 0, lay.objmax)
        st.add_region(Region('TEXT', 'sink', Aff.sym(cap), content='none'))
        C.setcell(st, 'CTX', f['buffer'][0], f['buffer'][1], Ptr('TEXT', Aff(0)))
        C.setcell(st, 'CTX', f['buffer_size'][0], f['buffer_size'][1], Int(lay.szw, Aff.sym(cap)))
        C.setcell(st, 'CTX', f['buffer_used'][0], f['buffer_used'][1], st.fresh_int('c14:TEXT_USED', lay.szw))
        pv = _pstate_value(st, pstate)
        C.setcell(st, 'CTX', f['pstate'][0], f['pstate'][1], pv)
        C.setcell(st, 'CTX', f['nice'][0], f['nice'][1], st.fresh_int('c14:NICE', 8, 0, 1))
        C.setcell(st, 'CTX', f['buffer_full'][0], f['buffer_full'][1], st.fresh_int('c14:FULL', 8, 0, 1))
    args = [Ptr('P', Aff(0)), Int(16, Aff(next_state)), Ptr('CTX', Aff(0))]
    return st, args


def traces(C, fn, ctxkind, next_state, pstate, in_array, bool_byte=None):
    st, args = entry_state(C, ctxkind, next_state, pstate, in_array, fn.name, bool_byte)
    st.frames = [C._root_frame()]
    mark = len(C.hooks.log)
    outs = C.I.call_function(st, fn, args, None)
    res = set()
    f = {n: (o, s) for (n, o, s) in (C.mod.di_struct_fields('_to_string_ctx') or [])}
    for (s, rv) in outs:
        tr = tuple(e[1:] for e in s.eventlist() if e[0] == 'emit')
        if ctxkind == 'print':
            c = (s.cells('CTX') or {}).get(((0, ()), 1))
        else:
            c = (s.cells('CTX') or {}).get(((f['pstate'][0], ()), f['pstate'][1]))
        ps = describe(s, c[2]) if c else '?'
        res.add((tr, ps))
    unproven = [x for x in C.hooks.log[mark:] if x[0] == 'ob' and not x[2] and x[1] in ('MEM-R', 'FORMAT', 'UB-TRUNC')]
    return res, unproven


def run(rep, tier):
    with build.Scratch() as sc:
        lib, raws = sc.lib_ir('c14')
        mod = irload.load(lib)
        C = Contracts(mod, EmitHooks())
        pfn = mod.functions.get('_binson_print_cb')
        tfn = mod.functions.get('_binson_to_string_cb')
        need(pfn is not None and tfn is not None, 'C14: token callbacks _binson_print_cb/_binson_to_string_cb not found')
        # the token-kind constants the loop passes to the callbacks: every value the callbacks switch on, plus one other
        kinds = set()
        for fn in (pfn, tfn):
            for ins in fn.instructions():
                if ins.op == 'switch':
                    kinds.update(k for (k, lb) in ins.attrs['cases'])
        need(len(kinds) >= 10, 'C14: only %d token kinds found in the callbacks\' switches' % len(kinds))
        kinds = sorted(kinds) + [0x2000]
        # both are driven by binson_parser_verify with pstate = 0 (resolved-IR rule)
        for drv, cb in (('binson_parser_print', '_binson_print_cb'), ('binson_parser_to_string', '_binson_to_string_cb')):
            d = mod.functions.get(drv)
            need(d is not None, 'C14: %s not found' % drv)
            calls = [i for i in d.instructions() if i.op == 'call' and i.attrs['callee'] == ('global', 'binson_parser_verify')]
            stores_cb = [i for i in d.instructions() if i.op == 'store' and i.ops[0][1] == ('global', cb)]
            rep.ob(len(calls) == 1 and len(stores_cb) == 1, '%s:DRIVER' % drv,
                   'C14 %s does not drive %s through exactly one binson_parser_verify call' % (drv, cb), '',
                   sample={'driver': drv, 'callback': cb, 'verify_calls': len(calls)})
        # the separator-state alphabet: every 8-bit constant the two callbacks and their drivers store or compare with
        # (whatever the encoding is), plus one value outside it standing for "any other"
        alpha = set()
        for fname_ in ('_binson_print_cb', '_binson_to_string_cb', 'binson_parser_print', 'binson_parser_to_string'):
            f_ = mod.functions.get(fname_)
            for ins in (f_.instructions() if f_ is not None else ()):
                if ins.op in ('icmp', 'store'):
                    for (t_, v_) in ins.ops[:2]:
                        if t_ == ('int', 8) and isinstance(v_, tuple) and v_[0] == 'int':
                            alpha.add(v_[1] & 0xff)
                    if ins.op == 'icmp':
                        for (t_, v_) in ins.ops[:2]:
                            if t_ == ('int', 32) and isinstance(v_, tuple) and v_[0] == 'int' and 0 <= v_[1] <= 255:
                                alpha.add(v_[1])     # i8 compared after promotion to int
        need(len(alpha) >= 4, 'C14: only %d separator-state constants found' % len(alpha))
        other = min(x for x in range(256) if x not in alpha)
        pstates = [('exact', v) for v in sorted(alpha)] + [('exact', other)]
        rep.coverage['separator_states'] = sorted(alpha)
        ncombo = 0
        for k in kinds:
            for ps in pstates:
                for in_array in (False, True):
                    ncombo += 1
                    a, ua = traces(C, pfn, 'print', k, ps, in_array)
                    b, ub = traces(C, tfn, 'to_string', k, ps, in_array)
                    combo = 'token kind 0x%04x, separator state %s, %s' % (k, ('0x%02x' % ps[1]) if ps[1] != other else 'other', 'inside an array' if in_array else 'not inside an array')
                    ok = (a == b)
                    detail = ''
                    if not ok:
                        detail = 'print only:\n  %s\nto_string only:\n  %s' % ('\n  '.join(map(str, sorted(a - b))), '\n  '.join(map(str, sorted(b - a))))
                    rep.ob(ok, 'callbacks:EMIT:0x%04x:%s:%s' % (k, ps[1], int(in_array)),
                           'C14 binson_parser_print and binson_parser_to_string render differently for %s' % combo, detail,
                           sample={'combination': combo, 'emit_traces': [list(map(list, t[0])) for t in sorted(a)][:2], 'next_separator_state': sorted({t[1] for t in a})})
        need(ncombo >= 100, 'C14: only %d combinations evaluated' % ncombo)
        rep.coverage['combinations'] = ncombo
        # ---- RENDER: separator structure of the text for bounded documents (extracted machines composed)
        from props import c14m
        try:
            rep.coverage['value_conversions_checked'] = c14m.format_clause(rep, mod)
            c14m.render_clause(rep, mod, tier)
        except AnalysisBroken as e:
            if not rep.violations:
                raise
            rep.assumptions.append('FORMAT / RENDER clauses not evaluated on this tree: %s' % e)
            print('NOTE C14 FORMAT / RENDER clauses not evaluated: %s' % e)
    rep.coverage.update({
        'rule': 'for each (token kind x separator state x in-array) the two callbacks, abstractly evaluated with everything else unconstrained, '
                'emit the same sequence of (format string, argument provenance) and reach the same separator state',
        'trusted_base': ['clang-14 IR', 'engine/absint*.py', 'engine/externals.py (format parsing)'],
        'explanation': 'sibling agreement of the two renderers by abstract evaluation; decides only the "print == to_string" clause',
        'exhaustive': True,
    })
    rep.assumptions += ['RENDER decides the separator structure ({"name":value,...} / [v,...], exactly one comma between siblings) for documents up to the stated '
                        'bound; the conversion of each name and value (decimal, %f, hex digits, text up to a 0x00 byte) is libc printf applied to the '
                        'provenance-checked arguments of the emit traces and is not re-decided']
