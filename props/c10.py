"""C10 - decoder and encoder decision tables are mutual inverses (no specification table involved)."""
from engine import build, irload
from engine.contracts import Contracts, LibHooks
from engine.common import need
from props import tables as T

NS = {}          # next-state code of the decoder -> kind, filled from the code in run() (internal encoding)


def run(rep, tier):
    with build.Scratch() as sc:
        lib, raws = sc.lib_ir('c10')
        mod = irload.load(lib)
        C = Contracts(mod, LibHooks())
        enc = T.encoder_table(mod)
        dec = T.decoder_process_one(C, mod)
        pi = T.decoder_parse_integer(C, mod)
        NS.clear()
        NS.update(T.next_state_kinds(mod, dec)[0])
        # decoder view: byte -> (kind, payload width, accepted argument set)
        dview = {}
        for b, rows in dec.items():
            succ = [r for r in rows if r[0] in NS]
            if not succ:
                continue
            kind = NS[succ[0][0]]
            if kind in ('string', 'bytes'):
                w = succ[0][1][1] - 1
                acc = T.inter_set(T.norm_set([r[2] for r in succ if r[2]]), T.representable(w))
            elif kind == 'integer':
                w = succ[0][1][1] - 1
                acc = T.inter_set(pi[w]['accepted'], T.representable(w))
            else:
                w = succ[0][1][1] - 1
                acc = None
            dview[b] = (kind, w, acc)
        # encoder view
        eview = {}
        for f, kind in (('binson_write_integer', 'integer'), ('binson_write_string_with_len', 'string'), ('binson_write_bytes', 'bytes')):
            for (b, w, iv) in enc[f + ':pack']:
                eview.setdefault(b, [kind, w, []])[2].append(iv)
        for (b, w, iv) in enc['binson_write_double:pack']:
            eview[b] = ['double', w, None]
        for r in enc['binson_write_boolean']:
            if r['writes']:
                eview[r['writes'][0][0]] = ['boolean', 0, None]
        need(len(eview) >= 12 and len(dview) >= 12, 'C10: tables too small (encoder %d, decoder %d rows)' % (len(eview), len(dview)))
        lenmax = [(0, (1 << 31) - 1)]
        for b, (kind, w, ivs) in sorted(eview.items()):
            d = dview.get(b)
            erange = T.norm_set(ivs) if ivs is not None else None
            if kind in ('string', 'bytes') and erange is not None:
                erange = T.inter_set(erange, lenmax)      # longer lengths are flagged as errors by the encoder (C05)
                if not erange:
                    continue
            ok = d is not None and d[0] == kind and d[1] == w and (erange is None or d[2] == erange)
            rep.ob(ok, 'tables:INVERSE:enc:0x%02x' % b,
                   'C10 the encoder writes %s of width %d with type byte 0x%02x for %s, the decoder reads that byte as %s' % (
                       kind, w, b, [(hex(x), hex(y)) for x, y in (erange or [])], d), '',
                   sample={'type_byte': hex(b), 'kind': kind, 'width': w, 'encoder_range == decoder_accepted': True})
        for b, (kind, w, acc) in sorted(dview.items()):
            e = eview.get(b)
            rep.ob(e is not None and e[0] == kind and e[1] == w, 'tables:INVERSE:dec:0x%02x' % b,
                   'C10 the decoder accepts type byte 0x%02x as %s of width %d but no encoder path produces it (%s)' % (b, kind, w, e), '',
                   sample={'type_byte': hex(b), 'decoded_as': kind, 'produced_by_encoder': True})
        # byte order: the encoder puts byte k of the value at payload position k, the decoder reads payload position k into byte k
        eb = T.encoder_bytes(mod)
        asm = T.decoder_assembly(C, mod)
        for w in (1, 2, 4, 8):
            enc_le = all(len(by) == ww and all(d is not None and d[0] == 'v' and d[2] == k for k, d in enumerate(by))
                         for f, rows in eb.items() for (ww, by) in rows if ww == w)
            dec_le = bool(asm.get((w, 1))) and all(r['ok'] for r in asm[(w, 1)])
            rep.ob(enc_le and dec_le, 'tables:INVERSE:order:%d' % w,
                   'C10 width %d: encoder and decoder do not agree on the byte order (encoder little-endian: %s, decoder little-endian with sign fill: %s)' % (w, enc_le, dec_le), '',
                   sample={'width': w, 'encoder_position_k_is_value_byte_k': enc_le, 'decoder_value_byte_k_is_position_k': dec_le})
        dd = asm.get((8, 0))
        rep.ob(bool(dd) and all(r['ok'] for r in dd), 'tables:INVERSE:order:double', 'C10 the 8 bytes of a double are not read back in the order they are written', '')
    rep.coverage.update({
        'rule': 'for every encoder row (kind, value set) -> (byte, width) the decoder maps the byte to the same kind and width and accepts exactly that value set; '
                'every decoder-accepted byte is produced by some encoder row',
        'trusted_base': ['clang-14 IR', 'engine/absint*.py', 'props/tables.py'],
        'explanation': 'metamorphic: the two extracted tables are compared with each other, not with a specification',
        'exhaustive': True,
    })
    rep.assumptions += ['NOT decided: byte-for-byte identity over all documents (structure, names, order); structural tokens are compared in C02/C05']
