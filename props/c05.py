"""C05 - the encoder's decision table (value range -> type byte, width) equals the canonical table of the
specification: shortest form at all boundaries, type byte matches width.  Payload byte order is NOT decided."""
import json
import os

from engine import build, irload
from engine.common import need, VERIF
from props import tables as T


def spec():
    return json.load(open(os.path.join(VERIF, 'spec', 'tokens.json')))


def check_pack(rep, rows, base, kind, domain, what):
    """rows: (first byte, width, (lo,hi)) pieces; domain: interval set of admissible arguments"""
    by = {}
    for (b, w, iv) in rows:
        by.setdefault((b, w), []).append(iv)
    need(by, 'C05: no packing rows extracted for %s' % what)
    sp = spec()['tokens']
    for w, k in ((1, 0), (2, 1), (4, 2), (8, 3)):
        want = T.inter_set(T.shortest_form(w), domain)
        got = T.norm_set(sum((v for (bb, ww), v in by.items() if ww == w), []))
        got = T.inter_set(got, domain)
        rep.ob(got == want, '_int_pack_size:ENC-RANGE:%s:%d' % (kind, w),
               'C05 %s: the values encoded with a %d-byte payload are %s, the canonical (shortest-form) set is %s' % (
                   what, w, [(hex(a), hex(b)) for a, b in got], [(hex(a), hex(b)) for a, b in want]), '',
               sample={'what': what, 'width': w, 'value_pieces': [[hex(a), hex(b)] for a, b in got]})
        bytes_w = {bb for (bb, ww) in by if ww == w}
        if want:
            expect = base + k
            okb = bytes_w == {expect}
            known = sp.get('0x%02x' % expect)
            okspec = known is not None and known['kind'] == kind and known['width'] == w
            rep.ob(okb and okspec, '_int_pack_size:ENC-BYTE:%s:%d' % (kind, w),
                   'C05 %s: width %d is announced by type byte(s) %s, the grammar says 0x%02x' % (what, w, sorted(hex(x) for x in bytes_w), expect), '',
                   sample={'what': what, 'width': w, 'type_byte': hex(expect)})


def run(rep, tier):
    with build.Scratch() as sc:
        lib, raws = sc.lib_ir('c05')
        mod = irload.load(lib)
        enc = T.encoder_table(mod)
        sp = spec()
        full = [(0, T.M64)]
        lens = [(0, sp['length_max'])]
        check_pack(rep, enc['binson_write_integer:pack'], 0x10, 'integer', full, 'binson_write_integer')
        # the length that is packed must be the caller's length for every value of it (no path may shorten or lengthen it):
        # the pieces of the argument domain covered by the packing rows must tile 0..2^63-1 completely
        for f in ('binson_write_string_with_len', 'binson_write_bytes'):
            cov = T.norm_set([iv for (b, w, iv) in enc[f + ':pack'] if iv])
            rep.ob(cov == [(0, (1 << 63) - 1)], '%s:ENC-LEN-COVER' % f,
                   'C05 %s: the packed length does not range over exactly the caller\'s lengths (%s)' % (f, [(hex(a), hex(b)) for a, b in cov]), '',
                   sample={'fn': f, 'packed_length_domain': '0..PTRDIFF_MAX'})
        check_pack(rep, enc['binson_write_string_with_len:pack'], 0x14, 'string', lens, 'string length prefix')
        check_pack(rep, enc['binson_write_bytes:pack'], 0x18, 'bytes', lens, 'bytes length prefix')
        # lengths above INT32_MAX must be flagged, not silently encoded
        for f in ('binson_write_string_with_len', 'binson_write_bytes'):
            big = [r for r in enc[f] if r['arg'] and r['arg'][0] > sp['length_max']]
            need(big, 'C05: no path for lengths above INT32_MAX in %s' % f)
            rep.ob(all(r['error'] not in (0, None) and r['ret'] == 0 for r in big), '%s:ENC-LEN-MAX' % f,
                   'C05 %s accepts a length above INT32_MAX without an error' % f, '', sample={'fn': f, 'length>INT32_MAX': 'error set on every path'})
        # double and the constant tokens
        dbl = enc['binson_write_double:pack']
        rep.ob({(b, w) for (b, w, iv) in dbl} == {(0x46, 8)}, 'binson_write_double:ENC', 'C05 double is not encoded as 0x46 + 8 bytes: %s' % dbl, '',
               sample={'double': '0x46 + 8 bytes'})
        consts = {'binson_write_object_begin': {0x40}, 'binson_write_object_end': {0x41}, 'binson_write_array_begin': {0x42},
                  'binson_write_array_end': {0x43}, 'binson_write_boolean': {0x44, 0x45}}
        for f, want in consts.items():
            got = {w[0][0] for w in (r['writes'] for r in enc[f]) if w}
            sizes = {w[0][1] for w in (r['writes'] for r in enc[f]) if w}
            rep.ob(got == want and sizes == {1}, '%s:ENC' % f, 'C05 %s emits token byte(s) %s of size %s, expected %s of size 1' % (f, sorted(got), sorted(sizes), sorted(want)), '',
                   sample={'fn': f, 'token': sorted(hex(x) for x in got)})
        tb = [r for r in enc['binson_write_boolean'] if r['writes']]
        rep.ob(all((r['arg'] == (1, 1)) == (r['writes'][0][0] == 0x44) for r in tb), 'binson_write_boolean:ENC-VALUE', 'C05 true/false map to the wrong token', '')
        # the payload of string/bytes is the caller's bytes with the announced length
        for f in ('binson_write_string_with_len', 'binson_write_bytes'):
            pay = [r['writes'][1] for r in enc[f] if len(r['writes']) > 1]
            need(pay, 'C05: no payload write observed in %s' % f)
            import re as _re
            rep.ob(all(p[2] == 'USPAN' and _re.match(r'^length#[0-9]+$', p[3] or '') for p in pay), '%s:ENC-PAYLOAD' % f,
                   'C05 %s does not copy exactly `length` bytes of the caller\'s data as payload: %s' % (f, pay[:2]), '',
                   sample={'fn': f, 'payload': 'caller span, announced length'})
        # little-endian payload: payload byte k is byte k of the value / length / double bit pattern
        eb = T.encoder_bytes(mod)
        for f, rows in eb.items():
            need(rows, 'C05: no packed bytes observed for %s' % f)
            for (w, by) in rows:
                ok = len(by) == w and all(d is not None and d[0] == 'v' and d[2] == k and d[1] == by[0][1] for k, d in enumerate(by))
                rep.ob(ok, '_int_pack_size:ENC-LE:%s:%d' % (f, w),
                       'C05 %s: the %d payload bytes are not the value\'s bytes in little-endian order: %s' % (f, w, list(by)), '',
                       sample={'fn': f, 'width': w, 'payload_bytes': [list(d) if d else None for d in by]})
        rep.coverage['encoder_table'] = {k: [list(map(str, r)) for r in v] for k, v in enc.items() if k.endswith(':pack')}
    rep.coverage.update({
        'rule': 'extracted (value piece -> type byte, width) table equals shortest-form sets of the grammar at every boundary, per sign',
        'trusted_base': ['clang-14 IR', 'engine/absint*.py', 'spec/tokens.json (grammar transcription)'],
        'explanation': 'table extraction by abstract evaluation of the width selection; compared with the grammar',
        'exhaustive': True,
    })
    rep.assumptions += ['NOT decided: verbatim copy of string/bytes content beyond (source span, length); acceptance by verify (value-level)']
