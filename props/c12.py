"""C12 - a parser/writer object carries nothing over.  History independence is decided as
non-interference from old contents: after init / reset / a successful verify every field and the
whole state array are expressions over the call's arguments, the configuration and constants."""
from engine import build, irload, runner, flow
from engine.contracts import API, LibHooks, Layout
from engine.absval import Int, Ptr, Null, Top, Zero, Fn
from engine.common import need

CFG_FIELDS = ('type', 'buffer', 'buffer_size', 'state', 'max_depth', 'cb', 'cb_context')
INIT_CFG = ('state', 'max_depth')


def origins(st, v):
    if isinstance(v, Int):
        return {st.syminfo[s].origin for s in v.a.t if s in st.syminfo}
    if isinstance(v, Ptr):
        return {st.syminfo[s].origin for s in v.off.t if s in st.syminfo}
    if isinstance(v, Top):
        return {v.why}
    return set()


def stale(o, allowed_fields, entry_only=False):
    """is origin o old contents of the object (not configuration / arguments / input bytes)?"""
    if entry_only and not o.startswith('entry:'):
        return False
    if o.startswith('entry:P.') or o.startswith('entry:W.') or o.startswith('entry:STATE'):
        f = o.split('.', 1)[1].split(' ')[0] if '.' in o else ''
        return f not in allowed_fields
    if o.startswith('uninit:') or o.startswith('load-unproven') or o.startswith('partial-overlap') or o.startswith('head'):
        return True
    return False


def post(C, fname, label, outs, log):
    lay = C.lay
    res = []
    for (st, ret) in outs:
        S = st.store
        rc = S.const_of(ret.a) if isinstance(ret, Int) else None
        if rc != 1:
            continue
        e = {'fields': {}, 'ctrl': [], 'path': ['%s:%d:%s' % p if p[1] else p[2] for p in st.pathlist()][-8:]}
        if fname.startswith('binson_parser'):
            for name, (off, size) in lay.parser.items():
                c = (st.cells('P') or {}).get(((off, ()), size))
                v = c[2] if c else None
                e['fields'][name] = {'repr': repr(v), 'origins': sorted(origins(st, v)) if v is not None else ['<missing>'],
                                     'const': S.const_of(v.a) if isinstance(v, Int) else None,
                                     'ptr': (v.region, S.const_of(v.off)) if isinstance(v, Ptr) else ('null' if isinstance(v, Null) else None)}
            e['state_default'] = st.tags.get(('default', 'STATE'))
            e['state_havoc'] = bool(st.tags.get(('havoc', 'STATE')))
            e['state_cells'] = [(repr(o), sz, repr(v)) for (o, sz, v) in (st.cells('STATE') or {}).values() if not isinstance(v, Zero)
                                and not (isinstance(v, Int) and S.const_of(v.a) == 0) and not isinstance(v, Null)]
        else:
            for name, (off, size) in lay.writer.items():
                c = (st.cells('W') or {}).get(((off, ()), size))
                v = c[2] if c else None
                if v is None:
                    # covered by the zero block of memset(writer, 0, sizeof)?
                    for (o2, s2, v2) in (st.cells('W') or {}).values():
                        if isinstance(v2, Zero) and o2.is_const() and o2.c <= off and off + size <= o2.c + s2:
                            v = Int(size * 8, __import__('engine.lin', fromlist=['Aff']).Aff(0))
                e['fields'][name] = {'repr': repr(v), 'origins': sorted(origins(st, v)) if v is not None else ['<missing>'],
                                     'const': 0 if isinstance(v, Zero) else (S.const_of(v.a) if isinstance(v, Int) else None),
                                     'ptr': (v.region, S.const_of(v.off)) if isinstance(v, Ptr) else None}
        e['ctrl'] = sorted({st.syminfo[s].origin for s in st.ctrl if s in st.syminfo})
        res.append(e)
    return res


def must_write(fn, key_of_store):
    """forward must-analysis: set of keys definitely stored on every path reaching each block's end"""
    rpo = fn.rpo()
    allk = set()
    gen = {}
    for bn in rpo:
        g = set()
        for ins in fn.blocks[bn].instrs:
            if ins.op == 'store':
                k = key_of_store(ins)
                if k is not None:
                    g.add(k)
        gen[bn] = g
        allk |= g
    out = {bn: set(allk) for bn in rpo}
    out[rpo[0]] = set(gen[rpo[0]])
    changed = True
    while changed:
        changed = False
        for bn in rpo[1:]:
            preds = [p for p in fn.blocks[bn].preds if p in out]
            inn = set(allk)
            for p in preds:
                inn &= out[p]
            new = inn | gen[bn]
            if new != out[bn]:
                out[bn] = new
                changed = True
    return out


def run(rep, tier):
    cfgs = [('print.lp64', ('BINSON_PARSER_WITH_PRINT',), None)]
    if tier == 'thorough':
        cfgs += [('print.ilp32', ('BINSON_PARSER_WITH_PRINT',), 'ilp32')]
    with build.Scratch() as sc:
        for (tag, defs, target) in cfgs:
            lib, raws = sc.lib_ir(tag, defs=defs, target=target)
            mod = irload.load(lib)
            lay = Layout(mod)
            fns = ['binson_parser_init_object', 'binson_parser_init_array', 'binson_parser_reset', 'binson_parser_verify',
                   'binson_writer_init', 'binson_writer_reset']
            tasks = []
            for f in fns:
                need(f in mod.functions, 'C12: anchor function %s not found' % f)
                for lb in runner.labels_for(mod, f):
                    tasks.append((f, lb, {'compact': ('_process_one', '_advance_parsing'), 'weight': runner.WEIGHT.get(f, 1)}))
            results = runner.run(mod, tasks, hooks_cls=LibHooks, post=post)
            nsucc = 0
            for r in results:
                f = r['fn']
                for e in (r['extra'] or []):
                    nsucc += 1
                    where = '%s [%s] (%s)' % (f, r['label'], tag)
                    pth = 'path:\n  ' + '\n  '.join(e['path'])
                    if f.startswith('binson_parser'):
                        allowed = INIT_CFG if 'init' in f else CFG_FIELDS
                        for name, fv in e['fields'].items():
                            bad = [o for o in fv['origins'] if stale(o, allowed)]
                            if name in allowed and not bad:
                                continue
                            rep.ob(not bad, '%s:CARRY:%s' % (f, name),
                                   'C12 after a successful %s, parser->%s = %s still depends on old contents (%s)' % (where, name, fv['repr'], ', '.join(bad)),
                                   pth, sample={'fn': f, 'entry': r['label'], 'field': name, 'value_after': fv['repr']})
                        fe = e['fields']
                        rep.ob(fe['buffer_used']['const'] == 0, '%s:CLEAN:buffer_used' % f, 'C12 cursor not at the start after %s: %s' % (where, fe['buffer_used']['repr']), pth)
                        rep.ob(fe['error_flags']['const'] == 0, '%s:CLEAN:error_flags' % f, 'C12 error flag not clear after %s' % where, pth)
                        rep.ob(fe['depth']['const'] in (0, 1), '%s:CLEAN:depth' % f, 'C12 depth is %s after %s' % (fe['depth']['repr'], where), pth)
                        rep.ob(fe['current_state']['ptr'] == ('STATE', 0), '%s:CLEAN:current_state' % f,
                               'C12 current_state is %s after %s, not &state[0]' % (fe['current_state']['repr'], where), pth)
                        rep.ob(e['state_default'] == 'zero' and not e['state_havoc'] and not e['state_cells'], '%s:CLEAN:state-array' % f,
                               'C12 the state array is not wiped in full by %s (default=%s, partially overwritten=%s, non-zero cells=%s)' % (
                                   where, e['state_default'], e['state_havoc'], e['state_cells'][:3]), pth,
                               sample={'fn': f, 'entry': r['label'], 'state_array': 'memset over all max_depth entries proven'})
                        # verify = reset + walk + reset: after its first reset (analysed on its own) nothing old is left, so
                        # generalised loop values cannot hide old contents; only direct entry symbols count there
                        badc = [o for o in e['ctrl'] if stale(o, allowed, entry_only=(f == 'binson_parser_verify'))]
                        rep.ob(not badc, '%s:CARRY:control' % f,
                               'C12 the outcome of %s is decided by old contents (%s)' % (where, ', '.join(badc)), pth)
                    else:
                        fe = e['fields']
                        rep.ob(fe['buffer_used']['const'] == 0, '%s:CLEAN:buffer_used' % f, 'C12 writer counter is %s after %s' % (fe['buffer_used']['repr'], where), pth,
                               sample={'fn': f, 'entry': r['label'], 'counter_after': 0})
                        rep.ob(fe['error_flags']['const'] == 0, '%s:CLEAN:error_flags' % f, 'C12 writer error flag not clear after %s' % where, pth)
                        for name, fv in fe.items():
                            allowed = () if f == 'binson_writer_init' else ('buffer', 'buffer_size')
                            bad = [o for o in fv['origins'] if stale(o, allowed) or (o == '<missing>')]
                            rep.ob(not bad, '%s:CARRY:%s' % (f, name), 'C12 after %s writer->%s = %s depends on old contents (%s)' % (where, name, fv['repr'], bad), pth)
            need(nsucc >= 12, 'C12: only %d successful exits analysed' % nsucc)
            # ---- flow: configuration fields are written only by _binson_parser_init (cb/cb_context also by print/to_string)
            pnames = [n for n, _ in sorted(lay.parser.items(), key=lambda kv: kv[1][0])]
            loaded = set()
            for fn in mod.functions.values():
                for ins in fn.instructions():
                    if ins.op == 'store':
                        k = flow.mem_key(fn, ins.ops[1][1])
                        if k[0] == 'field' and k[1] == 'struct.binson_parser_s':
                            name = pnames[k[2]]
                            if flow.base_kind(fn, ins.ops[1][1]) == 'alloca':
                                continue     # a function configuring its own local parser (BINSON_PARSER_DEF) is the documented way
                            if name in ('type', 'buffer', 'buffer_size', 'state', 'max_depth'):
                                rep.ob(fn.name == '_binson_parser_init', '%s:CFG-WRITE:%s' % (fn.name, name),
                                       'C12 configuration field parser->%s is written at %s in %s (only _binson_parser_init may)' % (name, ins.loc(), fn.name), ins.text,
                                       sample={'rule': 'config written only by init', 'field': name, 'at': ins.loc()})
                            if name in ('cb', 'cb_context'):
                                rep.ob(fn.name in ('_binson_parser_init', 'binson_parser_print', 'binson_parser_to_string'), '%s:CFG-WRITE:%s' % (fn.name, name),
                                       'C12 parser->%s is written at %s in %s' % (name, ins.loc(), fn.name), ins.text)
                    if ins.op == 'load':
                        k = flow.mem_key(fn, ins.ops[0][1])
                        if k[0] == 'field' and k[1] == 'struct.binson_parser_s':
                            loaded.add(pnames[k[2]])
            # ---- flow: every non-configuration field that anything may load is definitely written by reset on its success path
            rfn = mod.functions['binson_parser_reset']

            def key_of_store(ins):
                k = flow.mem_key(rfn, ins.ops[1][1])
                if k[0] == 'field' and k[1] == 'struct.binson_parser_s':
                    return pnames[k[2]]
                return None
            mw = must_write(rfn, key_of_store)
            succ_written = None
            for bn in rfn.rpo():
                t = rfn.blocks[bn].term()
                if t.op == 'ret':
                    v = t.ops[0][1]
                    if v == ('int', 1):
                        succ_written = mw[bn] if succ_written is None else (succ_written & mw[bn])
                    elif v[0] == 'local':
                        d = rfn.defs.get(v[1])
                        if d is not None and d.op == 'phi':
                            for (pv, lb) in d.attrs['incoming']:
                                if pv == ('int', 1):
                                    succ_written = mw[lb] if succ_written is None else (succ_written & mw[lb])
            need(succ_written is not None, 'C12: success return of binson_parser_reset not found')
            for name in sorted(loaded):
                if name in CFG_FIELDS:
                    continue
                rep.ob(name in succ_written, 'binson_parser_reset:MUST-WRITE:%s' % name,
                       'C12 parser->%s is read by the library but not written on every successful path of binson_parser_reset (%s)' % (name, tag),
                       'may-read fields: %s\nmust-write on success: %s' % (sorted(loaded), sorted(succ_written)),
                       sample={'rule': 'may-read subset of must-write(reset) + configuration', 'field': name})
            rep.coverage.setdefault('may_read', {})[tag] = sorted(loaded)
            rep.coverage.setdefault('reset_must_write', {})[tag] = sorted(succ_written)
            rep.coverage.setdefault('entries', []).extend('%s[%s] %s' % (r['fn'], r['label'], tag) for r in results)
    rep.coverage.update({
        'rule': 'non-interference: after init/reset/successful verify no field value, no state-array byte and no branch decision depends on '
                'prior contents; may-read fields are must-written by reset; configuration written only by init',
        'trusted_base': ['clang-14 IR', 'engine/absint*.py (symbol provenance)', 'engine/flow.py'],
        'explanation': 'old contents are unconstrained symbols, so absence of those symbols from the exit state is independence from all histories',
    })
    rep.assumptions += ['later behaviour is a function of the parser struct, the state array and the buffer only (no writable globals: C17)']
