"""C13 - to_string never stores at or beyond the capacity (absint, proof); the required size is the
same for every capacity (taint); *size protocol at the exits (absint observer)."""
from engine import build, irload, runner, flow
from engine.contracts import API, LibHooks, Layout
from engine.absval import Int, Ptr, Null
from engine.common import need
from props.c01 import collect

KINDS = ('MEM-W', 'REGION-W', 'MEM-R', 'CALL-IND', 'EXTERN', 'FORMAT', 'INV-J', 'UB-TRUNC')
MIN_SNPRINTF_SITES = 14


class THooks(LibHooks):
    """observes every store through the size out-parameter and every snprintf into the text buffer"""

    def ctx_used(self, st):
        f = self.interp.mod.di_struct_fields('_to_string_ctx')
        if not f:
            return None
        off = {n: (o, s) for (n, o, s) in f}.get('buffer_used')
        for rn in st.mem:
            if rn.startswith('L') and '.binson_parser_to_string.' in rn:
                reg = st.regions.get(rn)
                if reg is not None and st.store.const_of(reg.length) == self.interp.mod.sizeof(('named', 'struct._to_string_ctx')):
                    c = st.mem[rn].get(((off[0], ()), off[1]))
                    return c[2] if c else None
        return None

    def on_store(self, st, r, off, size, val, ins):
        LibHooks.on_store(self, st, r, off, size, val, ins)
        if r.name == 'SIZEP' and isinstance(val, Int):
            cu = self.ctx_used(st)
            kind = 'other'
            S = st.store
            if S.const_of(val.a) == 0 and cu is None:
                kind = 'zero'
            elif isinstance(cu, Int):
                if val.a == cu.a or S.entails_eq0(val.a.sub(cu.a)):
                    kind = 'eq'
                else:
                    want = cu.a.add(1)
                    sg = val.a.single()
                    info = st.syminfo.get(sg[0]) if sg and sg[1] == 1 and val.a.c == 0 else None
                    if val.a == want or (info is not None and info.defn and info.defn[0] == 'addw' and info.defn[1].add(info.defn[2]) == want):
                        kind = 'plus1'
            st.tags['sizep'] = (kind, ins.loc())
        if r.name == 'TEXT':
            self.log.append(('text-write', ins.loc()))


def post(C, fname, label, outs, log):
    res = {'exits': [], 'text_sites': sorted({x[1] for x in log if x[0] == 'text-write'})}
    for (st, ret) in outs:
        rc = st.store.const_of(ret.a) if isinstance(ret, Int) else None
        res['exits'].append({'ret': rc, 'sizep': st.tags.get('sizep'),
                             'path': ['%s:%d:%s' % p if p[1] else p[2] for p in st.pathlist()][-6:]})
    return res


def taint_clause(rep, mod):
    f = mod.di_struct_fields('_to_string_ctx')
    need(f, 'C13: no debug info for struct _to_string_ctx')
    names = [n for (n, o, s) in sorted(f, key=lambda x: x[1])]
    for n in ('buffer', 'buffer_size', 'buffer_used', 'buffer_full'):
        need(n in names, 'C13: struct _to_string_ctx has no field %s' % n)
    src = {names.index('buffer'), names.index('buffer_size'), names.index('buffer_full')}

    def is_source(fn, ins):
        k = flow.mem_key(fn, ins.ops[0][1])
        return k[0] == 'field' and k[1] == 'struct._to_string_ctx' and k[2] in src

    def is_sink(fn, ins):
        return flow.mem_key(fn, ins.ops[1][1]) == ('field', 'struct._to_string_ctx', names.index('buffer_used'))
    # snprintf's return value does not depend on its destination or size argument (C99 7.19.6.5)
    t = flow.Taint(mod, is_source, result_args={'snprintf': [2, 3, -1], 'printf': [0, 1, -1], 'strlen': [0], 'memcmp': [0, 1, 2]})
    t.run()
    sinks, n = t.check_sinks(is_sink)
    need(n >= 4, 'C13: only %d stores to ctx.buffer_used found (taint sink vanished)' % n)
    for ins, reasons in sinks:
        if ins.fn.name == 'binson_parser_to_string' and ins.ops[0][1] == ('int', 0):
            rep.ob(True, 'binson_parser_to_string:TAINT:init', '', sample={'kind': 'TAINT', 'sink': ins.loc(), 'note': 'initialisation to 0'})
            continue
        rep.ob(not reasons, '%s:TAINT:ctx.buffer_used' % ins.fn.name,
               'C13 required-size accumulation at %s in %s depends on the capacity / buffer pointer / full flag: %s' % (
                   ins.loc(), ins.fn.name, reasons[0] if reasons else ''),
               'rule: nothing stored to ctx.buffer_used may depend (data or control) on ctx.buffer_size, ctx.buffer, ctx.buffer_full or values '
               'derived from them (available); snprintf\'s result does not depend on its dst/size arguments.\n' + '\n'.join(reasons),
               sample={'kind': 'TAINT', 'sink': ins.loc(), 'function': ins.fn.name, 'flows': 0})
    return {'taint_sinks': n, 'tainted_values': len(t.tv)}


def run(rep, tier):
    cfgs = [('print.lp64', ('BINSON_PARSER_WITH_PRINT',), None)]
    if tier == 'thorough':
        cfgs += [('print.ilp32', ('BINSON_PARSER_WITH_PRINT',), 'ilp32')]
    with build.Scratch() as sc:
        for (tag, defs, target) in cfgs:
            lib, raws = sc.lib_ir(tag, defs=defs, target=target)
            mod = irload.load(lib)
            f = 'binson_parser_to_string'
            need(f in mod.functions, 'C13: binson_parser_to_string not found')
            cb = mod.functions.get('_binson_to_string_cb')
            need(cb is not None, 'C13: _binson_to_string_cb not found')
            nsn = sum(1 for i in cb.instructions() if flow.callee_name(i) == 'snprintf')
            need(nsn >= MIN_SNPRINTF_SITES, 'C13: only %d snprintf sites in _binson_to_string_cb (expected >= %d)' % (nsn, MIN_SNPRINTF_SITES))
            tasks = [(f, lb, {'compact': ('_process_one', '_advance_parsing'), 'weight': 10}) for lb in runner.labels_for(mod, f)]
            results = runner.run(mod, tasks, hooks_cls=THooks, post=post)
            collect(rep, results, tag, kinds=KINDS, prop='C13')
            sites = set()
            for r in results:
                sites.update(r['extra']['text_sites'])
                for e in r['extra']['exits']:
                    where = '%s [%s] (%s)' % (f, r['label'], tag)
                    sp = e['sizep']
                    if r['label'].endswith('nulltext'):
                        rep.ob(e['ret'] == 0, '%s:SIZE-PROTOCOL:null' % f,
                               'C13 %s can return %r for a NULL buffer (a size query must return false and report the required size)' % (where, e['ret']),
                               'path:\n  ' + '\n  '.join(e['path']), sample={'exit': 'NULL buffer', 'returns': e['ret'], 'entry': r['label']})
                    if e['ret'] == 1:
                        rep.ob(sp is not None and sp[0] == 'eq', '%s:SIZE-PROTOCOL:true' % f,
                               'C13 %s returns true but *size is not the text length (last store through size: %s)' % (where, sp),
                               'path:\n  ' + '\n  '.join(e['path']), sample={'exit': 'true', '*size': 'ctx.buffer_used', 'entry': r['label']})
                    elif e['ret'] == 0 and sp is not None:
                        rep.ob(sp[0] == 'plus1', '%s:SIZE-PROTOCOL:false' % f,
                               'C13 %s returns false but *size is not text length + 1 (last store through size: %s)' % (where, sp),
                               'path:\n  ' + '\n  '.join(e['path']), sample={'exit': 'false', '*size': 'ctx.buffer_used + 1', 'entry': r['label']})
                    elif e['ret'] is None:
                        rep.ob(False, '%s:SIZE-PROTOCOL:ret' % f, 'C13 %s: return value not a constant on an exit' % where, '')
            need(len(sites) >= MIN_SNPRINTF_SITES, 'C13: only %d snprintf sites reached the text buffer in the analysis' % len(sites))
            rep.coverage.setdefault('snprintf_sites_into_text', {})[tag] = sorted(sites)
            rep.coverage.setdefault('entries', []).extend('%s[%s] %s: %d exits' % (r['fn'], r['label'], tag, r['exits']) for r in results)
            if tag == cfgs[0][0]:
                pmod = irload.load([x for x in raws if 'binson_parser' in x][0])
                rep.coverage['taint'] = taint_clause(rep, pmod)
    rep.coverage.update({
        'rule': 'every snprintf into the text buffer writes inside [0, capacity) or has size 0, for any document and any capacity (incl. NULL); '
                'nothing added to the required-size counter depends on the capacity; *size = length on true, length + 1 on false',
        'trusted_base': ['clang-14 IR', 'engine/absint*.py', 'engine/externals.py snprintf model (C99: returns the full length, writes min(n, len+1))', 'engine/flow.py'],
        'explanation': 'bounds by abstract interpretation of to_string with verify, the token loop and the callback inlined; capacity independence by taint',
    })
    rep.assumptions += ['snprintf does not fail (returns >= 0)', 'NOT decided: that the reported size equals the reference text length (C14), false for every invalid document']
