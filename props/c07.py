"""C07 - the rewind clause of field lookup: a lookup that overshoots leaves the cursor exactly in front of the
overshot field (cursor = its value at the head of the iteration that read the name), restores the level to
"expecting a field" and does not record the overshot name.  "Found iff present" is NOT decided."""
from engine import build, irload, runner
from engine.contracts import API, LibHooks, Layout
from engine.absval import Int, Ptr, Zero
from engine.common import need, AnalysisBroken
from engine.lin import Aff

ENTRIES = ['binson_parser_field_with_length']


class RHooks(LibHooks):
    def on_store(self, st, r, off, size, val, ins):
        if r.name == 'P' and isinstance(val, Int):
            o, sz = self.lay.parser['buffer_used']
            if off.is_const() and off.c == o and size == sz:
                old = (st.cells('P') or {}).get(((o, ()), sz))
                if old is not None and isinstance(old[2], Int):
                    S = st.store
                    d = old[2].a.sub(val.a)
                    if S.entails_ge0(d.sub(1)):
                        # the cursor moves backwards: the rewind of an overshooting lookup
                        head = None
                        for tk, snap in st.tags.items():
                            if isinstance(tk, tuple) and tk and tk[0] == 'loophead' and tk[1] == ins.fn.name:
                                hv = snap.get(('P', ((o, ()), sz)))
                                if isinstance(hv, Int):
                                    head = hv
                        exact = head is not None and (head.a == val.a or (all(z in S.ivl for z in head.a.t) and S.entails_eq0(head.a.sub(val.a))))
                        st.tags['rewind'] = (ins.loc(), repr(val), repr(head), exact)
                    elif not S.entails_ge0(d.neg()):
                        self.log.append(('cursor-maybe-back', ins.loc(), repr(old[2]), repr(val)))
        if r.name == 'STATE' and 'rewind' in st.tags and isinstance(val, Int):
            # a level-flags store that follows the rewind on the same path
            fo_, fsz_ = self.lay.state['flags']
            ef = self.elem_field(off)
            if ef is not None and ef[1] == fo_ and size == fsz_:
                st.tags['rewind_flags'] = st.store.const_of(val.a)
        LibHooks.on_store(self, st, r, off, size, val, ins)

    def on_return(self, st, fn, ret):
        rw = st.tags.pop('rewind', None)
        if rw is None or fn.name != self.rewind_fn:
            if rw is not None:
                st.tags['rewind'] = rw
            return
        lay = self.lay
        S = st.store
        loc, val, head, exact = rw
        rc = S.const_of(ret.a) if isinstance(ret, Int) else None
        dirty = st.tags.get(('dirty', 'STATE')) or frozenset()
        no, _ = lay.state['current_name']
        fo, fsz = lay.state['flags']
        name_written = False
        flags_val = None
        for (okey, sz) in dirty:
            from engine.lin import Aff
            off = Aff(okey[0], dict(okey[1]))
            ef = self.elem_field(off)
            if ef is None:
                continue
            base, f = ef
            if no <= f < no + 2 * lay.ptr:
                name_written = True
            if f == fo and sz == fsz:
                c = (st.cells('STATE') or {}).get((okey, sz))
                if c is not None and isinstance(c[2], Int):
                    flags_val = S.const_of(c[2].a)
        if flags_val is None and st.tags.get('rewind_flags') is not None:
            flags_val = st.tags.get('rewind_flags')
        st.tags.pop('rewind_flags', None)
        if flags_val is None:
            # not found among the cells written since the last join: read the level through parser->current_state
            F = lay.parser
            cs = (st.cells('P') or {}).get(((F['current_state'][0], ()), F['current_state'][1]))
            if cs is not None and isinstance(cs[2], Ptr) and cs[2].region == 'STATE':
                o_ = cs[2].off.add(fo)
                c = (st.cells('STATE') or {}).get((o_.key(), fsz))
                if c is None:
                    # the same cell under another (provably equal) offset expression
                    for (k_, (co, csz, cv)) in (st.cells('STATE') or {}).items():
                        if csz == fsz and all(z in S.ivl for z in co.t) and all(z in S.ivl for z in o_.t) and S.entails_eq0(co.sub(o_)):
                            c = (co, csz, cv)
                            break
                if c is not None and isinstance(c[2], Int):
                    flags_val = S.const_of(c[2].a)
        self.log.append(('rewind', loc, val, head, exact, rc, name_written, flags_val,
                         ['%s:%d:%s' % p if p[1] else p[2] for p in st.pathlist()][-8:]))


def post(C, fname, label, outs, log):
    return [x[1:] for x in log if x[0] in ('rewind',)] + [('maybe',) + tuple(x[1:]) for x in log if x[0] == 'cursor-maybe-back']


def setup(C):
    C.hooks.rewind_fn = '_advance_parsing'


def rewind_clause(rep, mod, tag, prop='C07'):
    lay = Layout(mod)
    from props import stepm
    expecting_field = stepm.expecting_field_constant(mod)      # the encoding is read from the code, not written down here
    tasks = []
    for f in ENTRIES:
        need(f in mod.functions, '%s: %s not found' % (prop, f))
        for lb in runner.labels_for(mod, f):
            if lb.startswith('err'):
                continue
            tasks.append((f, lb, {'compact': ('_process_one',), 'setup': setup, 'weight': 10}))
    results = runner.run(mod, tasks, hooks_cls=RHooks, post=post)
    n = 0
    for r in results:
        for e in r['extra']:
            if e[0] == 'maybe':
                rep.ob(False, '_advance_parsing:REWIND:direction', '%s a store to the cursor at %s may move it backwards by an unknown amount (%s -> %s)' % (prop, e[1], e[2], e[3]), '')
                continue
            loc, val, head, exact, rc, name_written, flags_val, path = e
            n += 1
            ctx = '%s[%s] %s' % (r['fn'], r['label'], tag)
            pth = 'path:\n  ' + '\n  '.join(path)
            rep.ob(exact, '_advance_parsing:REWIND:cursor',
                   '%s overshoot rewind at %s leaves the cursor at %s, not at the start of the overshot field (%s): a failed lookup must re-read at most '
                   'the one name it overshot (%s)' % (prop, loc, val, head, ctx), pth,
                   sample={'rewind_at': loc, 'cursor_after': val, 'cursor_at_iteration_head': head, 'context': ctx})
            rep.ob(rc == 0, '_advance_parsing:REWIND:ret', '%s the overshooting step returns %r instead of false (%s)' % (prop, rc, ctx), pth)
            if prop == 'C07':
                rep.ob(flags_val == expecting_field, '_advance_parsing:REWIND:flags',
                       'C07 after the rewind at %s the level is not restored to "expecting a field" (flags = %r) (%s)' % (loc, flags_val, ctx), pth)
                rep.ob(not name_written, '_advance_parsing:REWIND:name',
                       'C07 the overshot name is recorded as the current name before the rewind at %s (%s)' % (loc, ctx), pth)
    need(n >= 2, '%s: the rewind of an overshooting lookup was not observed (only %d events)' % (prop, n))
    return n


def run(rep, tier):
    cfgs = [('print.lp64', ('BINSON_PARSER_WITH_PRINT',), None)]
    if tier == 'thorough':
        cfgs += [('print.ilp32', ('BINSON_PARSER_WITH_PRINT',), 'ilp32')]
    with build.Scratch() as sc:
        for (tag, defs, target) in cfgs:
            lib, raws = sc.lib_ir(tag, defs=defs, target=target)
            mod = irload.load(lib)
            rep.coverage.setdefault('rewind_events', {})[tag] = rewind_clause(rep, mod, tag, 'C07')
            rep.coverage.setdefault('cmp_outcomes', {})[tag] = cmp_spec(rep, mod, 'C07')
            rep.coverage.setdefault('ensure_exits', {})[tag] = ensure_clause(rep, mod)
            if target is None:
                try:
                    lookup_clause(rep, mod, tier)
                except AnalysisBroken as e:
                    # the machine-based clause cannot be evaluated on this tree; violations of the other clauses still stand
                    if not rep.violations:
                        raise
                    rep.assumptions.append('lookup clause not evaluated on this tree: %s' % e)
                    print('NOTE C07 lookup clause not evaluated: %s' % e)
    rep.coverage.update({
        'rule': 'on every abstract path through the overshoot branch: cursor after the rewind == cursor at the head of the iteration that read the name; '
                'level flags == EXPECTING_FIELD; current_name not stored in that iteration; the step returns false',
        'trusted_base': ['clang-14 IR', 'engine/absint*.py'],
        'explanation': 'decides the rewind clause only (a failed lookup never loses or corrupts the next field); found-iff-present is value-level',
    })
    rep.assumptions += ['the overshoot branch is recognised semantically as the store that moves the cursor backwards',
                        'found-iff-present / never-loses-later-fields: decided on the extracted machine for documents up to the stated bound; names are '
                        'abstracted to their order (the byte-level comparison is the CMP-SPEC clause); the _ensure variants and binson_parser_field '
                        '(strlen front end) are not covered']


def lookup_clause(rep, mod, tier):
    """found iff present, and a failed lookup passes only smaller names: the extracted cursor machine (props/c06.py) with the lookup
    function and a comparison oracle, against a reference cursor, for every document up to the bound and every call sequence that
    mixes next / enter / leave / get_raw / lookups of present and absent names"""
    from props import c06
    bounds = [(5, 3, ('integer', 'string'))] if tier == 'quick' else [(6, 3, ('integer', 'string')), (5, 3, ('integer', 'string', 'boolean', 'double', 'bytes'))]
    bad, cov = c06.analyse(mod, tier, prop='C07', lookups=True, bounds=bounds)
    rep.coverage['lookup_machine'] = {k: cov[k] for k in ('documents', 'product_states', 'calls_compared', 'bound')}
    rep.coverage['lookup_function_summary'] = cov['wrappers'].get(c06.LOOKUP)
    for api in ['field'] + sorted(c06.NAV):
        for what in ('error', 'result', 'depth', 'type', 'position'):
            hit = bad.get((what, api))
            if hit is None:
                rep.ob(True, 'lookup-machine:%s:%s' % (api, what), '', sample={'call': api, 'compared': what})
            else:
                msg, doc, md, seq = hit
                rep.ob(False, 'lookup-machine:%s:%s' % (api, what),
                       'C07 LOOKUP %s: %s - document %s (max_depth %d) after the calls %s' % (api, msg, doc, md, ' '.join(seq)),
                       'document: %s\ncall sequence: %s' % (doc, ' -> '.join(seq)))


# ------------------------------------------------------------------------------------------------------------------
# functional specification of the name comparison relative to memcmp ("names are compared bytewise over their full length")

def cmp_spec(rep, mod, prop='C07'):
    from engine.contracts import Contracts
    from engine.absval import Region, Ptr as P_
    from engine.lin import Aff
    fn = mod.functions.get('_cmp_name')
    need(fn is not None, '%s: _cmp_name not found' % prop)
    C = Contracts(mod, LibHooks())
    lay = C.lay
    st = C.I.new_state()
    la = st.fresh('cmp:len_a', lay.szw, 0, lay.objmax)
    lb = st.fresh('cmp:len_b', lay.szw, 0, lay.objmax)
    st.add_region(Region('SA', 'span', Aff.sym(la), readonly=True, content='bytes'))
    st.add_region(Region('SB', 'span', Aff.sym(lb), readonly=True, content='bytes'))
    for nm, ln, rg in (('A', la, 'SA'), ('B', lb, 'SB')):
        st.add_region(Region(nm, 'obj', Aff(2 * lay.ptr)))
        st.mem[nm] = {}
        st.owned.add(nm)
        C.setcell(st, nm, lay.bbuf['bsize'][0], lay.ptr, Int(lay.szw, Aff.sym(ln)))
        C.setcell(st, nm, lay.bbuf['bptr'][0], lay.ptr, P_(rg, Aff(0)))
    st.frames = [C._root_frame()]
    mark = len(C.hooks.log)
    outs = C.I.call_function(st, fn, [P_('A', Aff(0)), P_('B', Aff(0))], None)
    bad_mem = [x for x in C.hooks.log[mark:] if x[0] == 'ob' and not x[2]]
    rep.ob(not bad_mem, '_cmp_name:CMP-MEM', '%s _cmp_name reads outside its two spans: %s' % (prop, [x[4] for x in bad_mem][:2]), '')
    A_, B_ = Aff.sym(la), Aff.sym(lb)
    zero = Int(32, Aff(0))
    n = 0
    for (s0, rv) in outs:
        for (pred, name) in (('eq', 'equal'), ('slt', 'less'), ('sgt', 'greater')):
            s = s0.copy()
            subs = C.I.ops.assume_cmp(s, pred, rv, zero, True) if isinstance(rv, Int) else []
            for s1 in subs:
                n += 1
                S = s1.store
                evs = [e for e in s1.eventlist() if e[0] == 'memcmp']
                ok = False
                why = ''
                if len(evs) == 1:
                    _, pa, pb, nn, r = evs[0]
                    spans = isinstance(pa, P_) and isinstance(pb, P_) and {pa.region, pb.region} == {'SA', 'SB'} and S.entails_eq0(pa.off) and S.entails_eq0(pb.off)
                    flip = isinstance(pa, P_) and pa.region == 'SB'
                    full = S.entails_ge0(A_.sub(nn.a)) and S.entails_ge0(B_.sub(nn.a)) and (S.entails_eq0(nn.a.sub(A_)) or S.entails_eq0(nn.a.sub(B_)))
                    rneg = S.entails_ge0(r.a.sub(1 << 31))
                    rpos = S.entails_ge0(r.a.sub(1)) and S.entails_ge0(r.a.neg().add((1 << 31) - 1))
                    rzero = S.entails_eq0(r.a)
                    if flip:
                        rneg, rpos = rpos, rneg
                    if name == 'equal':
                        ok = spans and full and rzero and S.entails_eq0(A_.sub(B_))
                    elif name == 'less':
                        ok = spans and full and (rneg or (rzero and S.entails_ge0(B_.sub(A_).sub(1))))
                    else:
                        ok = spans and full and (rpos or (rzero and S.entails_ge0(A_.sub(B_).sub(1))))
                    why = 'memcmp over n=%r (covers the shorter name: %s), result sign known: neg=%s zero=%s pos=%s' % (nn, full, rneg, rzero, rpos)
                elif not evs:
                    # no byte comparison on this path: only sound when the common prefix is empty
                    empty = S.entails_eq0(A_) or S.entails_eq0(B_)
                    if name == 'equal':
                        ok = empty and S.entails_eq0(A_.sub(B_))
                    elif name == 'less':
                        ok = empty and S.entails_ge0(B_.sub(A_).sub(1))
                    else:
                        ok = empty and S.entails_ge0(A_.sub(B_).sub(1))
                    why = 'no memcmp on this path; one name empty: %s' % empty
                else:
                    why = '%d memcmp calls on one path' % len(evs)
                rep.ob(ok, '_cmp_name:CMP-SPEC:%s' % name,
                       '%s _cmp_name can answer "%s" without the bytewise/full-length order saying so (%s)' % (prop, name, why),
                       'specification: result < 0 iff memcmp over the common prefix is negative, or it is zero and the first name is shorter; '
                       '0 iff equal bytes and equal lengths; > 0 otherwise.\npath:\n  ' +
                       '\n  '.join('%s:%d:%s' % p if p[1] else p[2] for p in s1.pathlist()[-8:]),
                       sample={'answer': name, 'justified_by': why})
    need(n >= 3, '%s: _cmp_name has fewer than 3 classified outcomes (%d)' % (prop, n))
    return n


# ------------------------------------------------------------------------------------------------------------------
# the _ensure variants: succeed only if the type also matches, otherwise WRONG_TYPE

class EnsureHooks(LibHooks):
    """replaces the positioning call (lookup / next) by a summary: found or not, current level type = a tracked symbol"""
    STUBS = ('binson_parser_field_with_length', 'binson_parser_field', 'binson_parser_next')

    def stub_call(self, st, name, args, ins):
        if name not in self.STUBS:
            return None
        lay = self.lay
        F = lay.parser
        S_ = lay.state
        out = []
        for found in (1, 0):
            s = st.copy()
            s.tags['positioned_by'] = name
            s.tags['found'] = found
            s.mem['STATE'] = {}
            s.owned.add('STATE')
            s.tags[('havoc', 'STATE')] = 'all'
            s.tags['J'] = False
            lv = s.fresh('ens:level', 8, 0, 254)
            s.store.assume_ge0(s.regions['STATE'].length.sub(Aff.sym(lv).add(1).mul(lay.ssize)))
            base = Aff.sym(lv).mul(lay.ssize)
            o = Aff(F['current_state'][0])
            s.wcells('P')[(o.key(), F['current_state'][1])] = (o, F['current_state'][1], Ptr('STATE', base))
            w = S_['current_type'][1] * 8
            t = s.fresh('ens:type', w)
            oo = base.add(S_['current_type'][0])
            s.wcells('STATE')[(oo.key(), S_['current_type'][1])] = (oo, S_['current_type'][1], Int(w, Aff.sym(t)))
            s.tags['ens_type'] = t
            o = Aff(F['error_flags'][0])
            if found:
                ev = Int(32, Aff(0))        # a successful positioning call leaves no error (C09 / C01 exit contracts)
            else:
                e0 = s.fresh('ens:error', 32, 0, 255)
                s.tags['ens_err'] = e0
                ev = Int(32, Aff.sym(e0))
            s.wcells('P')[(o.key(), 4)] = (o, 4, ev)
            for nm in ('buffer_used', 'depth'):
                o = Aff(F[nm][0])
                s.wcells('P')[(o.key(), F[nm][1])] = (o, F[nm][1], s.fresh_int('ens:' + nm, F[nm][1] * 8))
            out.append((s, Int(1, Aff(found))))
        return out


def ensure_clause(rep, mod):
    from engine.contracts import Contracts, _cell
    from engine.lin import Aff as A_
    C0 = Contracts(mod, LibHooks())
    enums = C0._enums()
    need('BINSON_ERROR_WRONG_TYPE' in enums, 'C07: enumerator BINSON_ERROR_WRONG_TYPE not found')
    wrong = enums['BINSON_ERROR_WRONG_TYPE']
    n = 0
    for api in ('binson_parser_field_ensure_with_length', 'binson_parser_field_ensure', 'binson_parser_next_ensure'):
        fn = mod.functions.get(api)
        need(fn is not None, 'C07: %s not found' % api)
        hooks = EnsureHooks()
        C = Contracts(mod, hooks)
        lay = C.lay
        F = lay.parser
        for (label, st, args) in C.entries(api):
            if label != 'ok-d1':
                continue
            targ = args[-1]
            need(isinstance(targ, Int), 'C07: the wanted type of %s is not its last parameter' % api)
            st.frames = [C._root_frame()]
            outs = C.split_bool_returns(C.I.call_function(st, fn, args, None))
            for (s, rv) in outs:
                if 'found' not in s.tags:
                    continue            # left before positioning (NULL name etc.)
                n += 1
                S = s.store
                rc = S.const_of(rv.a) if isinstance(rv, Int) else None
                ev = _cell(s, 'P', F['error_flags'][0], 4)
                ec = S.const_of(ev.a) if isinstance(ev, Int) else None
                t = A_.sym(s.tags['ens_type'])
                # the type is compared in its own width; the argument may be wider (enum passed as int)
                d = t.sub(targ.a)
                where = '%s after %s %s' % (api, s.tags['positioned_by'], 'succeeded' if s.tags['found'] else 'failed')
                if not s.tags['found']:
                    same = isinstance(ev, Int) and S.entails_eq0(ev.a.sub(A_.sym(s.tags['ens_err'])))
                    rep.ob(rc == 0 and same, '%s:ENSURE:not-found' % api,
                           'C07 ENSURE %s: returns %r / error flag %r - it must return false and leave the error as the positioning call left it' % (where, rc, ev), '',
                           sample={'function': api, 'case': 'positioning failed', 'returns': rc})
                elif rc == 1:
                    rep.ob(S.entails_eq0(d) and ec == 0, '%s:ENSURE:true' % api,
                           'C07 ENSURE %s: returns true although the current type is not shown to equal the wanted type (or an error is set: %r)' % (where, ev), '',
                           sample={'function': api, 'case': 'found, returns true', 'type_equals_wanted': True})
                elif rc == 0:
                    rep.ob(S.entails_ne0(d) and ec == wrong, '%s:ENSURE:wrong-type' % api,
                           'C07 ENSURE %s: returns false after a successful positioning call, but not with "type differs and WRONG_TYPE is set" (error flag %r)' % (where, ev), '',
                           sample={'function': api, 'case': 'found, type differs', 'error': 'WRONG_TYPE'})
                else:
                    rep.ob(False, '%s:ENSURE:ret' % api, 'C07 ENSURE %s: result is not a constant' % where, '')
    need(n >= 6, 'C07: only %d exits of the _ensure variants classified' % n)
    return n
