"""C07 - the rewind clause of field lookup: a lookup that overshoots leaves the cursor exactly in front of the
overshot field (cursor = its value at the head of the iteration that read the name), restores the level to
"expecting a field" and does not record the overshot name.  "Found iff present" is NOT decided."""
from engine import build, irload, runner
from engine.contracts import API, LibHooks, Layout
from engine.absval import Int, Ptr, Zero
from engine.common import need

ENTRIES = ['binson_parser_field_with_length']


class RHooks(LibHooks):
    def on_store(self, st, r, off, size, val, ins):
        if r.name == 'P' and isinstance(val, Int):
            o, sz = self.lay.parser['buffer_used']
            if off.is_const() and off.c == o and size == sz:
                old = (st.cells('P') or {}).get(((o, ()), sz))
                if old is not None and isinstance(old[2], Int):
                    S = st.store
                    d = old[2].a.sub(val.a)
                    if S.entails_ge0(d.sub(1)):
                        # the cursor moves backwards: the rewind of an overshooting lookup
                        head = None
                        for tk, snap in st.tags.items():
                            if isinstance(tk, tuple) and tk and tk[0] == 'loophead' and tk[1] == ins.fn.name:
                                hv = snap.get(('P', ((o, ()), sz)))
                                if isinstance(hv, Int):
                                    head = hv
                        exact = head is not None and (head.a == val.a or (all(z in S.ivl for z in head.a.t) and S.entails_eq0(head.a.sub(val.a))))
                        st.tags['rewind'] = (ins.loc(), repr(val), repr(head), exact)
                    elif not S.entails_ge0(d.neg()):
                        self.log.append(('cursor-maybe-back', ins.loc(), repr(old[2]), repr(val)))
        LibHooks.on_store(self, st, r, off, size, val, ins)

    def on_return(self, st, fn, ret):
        rw = st.tags.pop('rewind', None)
        if rw is None or fn.name != self.rewind_fn:
            if rw is not None:
                st.tags['rewind'] = rw
            return
        lay = self.lay
        S = st.store
        loc, val, head, exact = rw
        rc = S.const_of(ret.a) if isinstance(ret, Int) else None
        dirty = st.tags.get(('dirty', 'STATE')) or frozenset()
        no, _ = lay.state['current_name']
        fo, fsz = lay.state['flags']
        name_written = False
        flags_val = None
        for (okey, sz) in dirty:
            from engine.lin import Aff
            off = Aff(okey[0], dict(okey[1]))
            ef = self.elem_field(off)
            if ef is None:
                continue
            base, f = ef
            if no <= f < no + 2 * lay.ptr:
                name_written = True
            if f == fo and sz == fsz:
                c = (st.cells('STATE') or {}).get((okey, sz))
                if c is not None and isinstance(c[2], Int):
                    flags_val = S.const_of(c[2].a)
        self.log.append(('rewind', loc, val, head, exact, rc, name_written, flags_val,
                         ['%s:%d:%s' % p if p[1] else p[2] for p in st.pathlist()][-8:]))


def post(C, fname, label, outs, log):
    return [x[1:] for x in log if x[0] in ('rewind',)] + [('maybe',) + tuple(x[1:]) for x in log if x[0] == 'cursor-maybe-back']


def setup(C):
    C.hooks.rewind_fn = '_advance_parsing'


def rewind_clause(rep, mod, tag, prop='C07'):
    lay = Layout(mod)
    expecting_field = 1
    tasks = []
    for f in ENTRIES:
        need(f in mod.functions, '%s: %s not found' % (prop, f))
        for lb in runner.labels_for(mod, f):
            if lb.startswith('err'):
                continue
            tasks.append((f, lb, {'compact': ('_process_one',), 'setup': setup, 'weight': 10}))
    results = runner.run(mod, tasks, hooks_cls=RHooks, post=post)
    n = 0
    for r in results:
        for e in r['extra']:
            if e[0] == 'maybe':
                rep.ob(False, '_advance_parsing:REWIND:direction', '%s a store to the cursor at %s may move it backwards by an unknown amount (%s -> %s)' % (prop, e[1], e[2], e[3]), '')
                continue
            loc, val, head, exact, rc, name_written, flags_val, path = e
            n += 1
            ctx = '%s[%s] %s' % (r['fn'], r['label'], tag)
            pth = 'path:\n  ' + '\n  '.join(path)
            rep.ob(exact, '_advance_parsing:REWIND:cursor',
                   '%s overshoot rewind at %s leaves the cursor at %s, not at the start of the overshot field (%s): a failed lookup must re-read at most '
                   'the one name it overshot (%s)' % (prop, loc, val, head, ctx), pth,
                   sample={'rewind_at': loc, 'cursor_after': val, 'cursor_at_iteration_head': head, 'context': ctx})
            rep.ob(rc == 0, '_advance_parsing:REWIND:ret', '%s the overshooting step returns %r instead of false (%s)' % (prop, rc, ctx), pth)
            if prop == 'C07':
                rep.ob(flags_val == expecting_field, '_advance_parsing:REWIND:flags',
                       'C07 after the rewind at %s the level is not restored to "expecting a field" (flags = %r) (%s)' % (loc, flags_val, ctx), pth)
                rep.ob(not name_written, '_advance_parsing:REWIND:name',
                       'C07 the overshot name is recorded as the current name before the rewind at %s (%s)' % (loc, ctx), pth)
    need(n >= 2, '%s: the rewind of an overshooting lookup was not observed (only %d events)' % (prop, n))
    return n


def run(rep, tier):
    cfgs = [('print.lp64', ('BINSON_PARSER_WITH_PRINT',), None)]
    if tier == 'thorough':
        cfgs += [('print.ilp32', ('BINSON_PARSER_WITH_PRINT',), 'ilp32')]
    with build.Scratch() as sc:
        for (tag, defs, target) in cfgs:
            lib, raws = sc.lib_ir(tag, defs=defs, target=target)
            mod = irload.load(lib)
            rep.coverage.setdefault('rewind_events', {})[tag] = rewind_clause(rep, mod, tag, 'C07')
    rep.coverage.update({
        'rule': 'on every abstract path through the overshoot branch: cursor after the rewind == cursor at the head of the iteration that read the name; '
                'level flags == EXPECTING_FIELD; current_name not stored in that iteration; the step returns false',
        'trusted_base': ['clang-14 IR', 'engine/absint*.py'],
        'explanation': 'decides the rewind clause only (a failed lookup never loses or corrupts the next field); found-iff-present is value-level',
    })
    rep.assumptions += ['the overshoot branch is recognised semantically as the store that moves the cursor backwards']
