"""C18 - behaviour independent of compiler flags: the two statically decidable clauses.

(a) char signedness: each unit compiled with -fsigned-char and -funsigned-char
    must give instruction-for-instruction identical IR (-O2 decides; -O0 reported).
(b) no reliance on arithmetic UB visible in the IR (added by the absint engine
    when available: see ub_clause()).
"""
import re

from engine import build, irdiff
from engine.common import need


def char_clause(rep, tier):
    programs = 0
    samples = []
    with build.Scratch() as sc:
        units = [('c', u) for u in build.C_UNITS] + [('cpp', build.CPP_UNIT)]
        levels = ['-O2', '-O0'] + (['-Os', '-O1'] if tier == 'thorough' else [])
        pcs = [('print', ('BINSON_PARSER_WITH_PRINT',))] + ([('noprint', ())] if tier == 'thorough' else [])
        for kind, unit in units:
            for ol in levels:
                for pname, defs in pcs:
                    texts = {}
                    for sign in ('-fsigned-char', '-funsigned-char'):
                        tag = '%s%s%s' % (pname, ol, sign)
                        if kind == 'c':
                            p = sc.c_ir(unit, tag, defs=defs, extra=(sign,), olevel=ol, opt=None)
                        else:
                            p = sc.cpp_ir(tag, defs=defs, extra=(sign,), olevel=ol, opt=None)
                        texts[sign] = open(p).read()
                    d, nf, ni = irdiff.diff(texts['-fsigned-char'], texts['-funsigned-char'])
                    need(nf >= 10, 'C18: only %d functions in %s %s' % (nf, unit, ol))
                    programs += 1
                    decisive = (ol != '-O0')
                    for (fn, idx, la, lb) in d:
                        dbg = irdiff.DBG.get((fn, idx))
                        ln = irdiff.line_of(texts['-funsigned-char'], dbg) if dbg else 0
                        msg = 'C18 %s:%s function %s compiles differently for signed vs unsigned plain char at %s: `%s` vs `%s`' % (
                            unit, ln or '?', fn, ol, la.strip()[:120], lb.strip()[:120])
                        if decisive:
                            rep.violation('%s:%s:char-signedness' % (unit.split('/')[-1], fn), msg,
                                          'signed:   %s\nunsigned: %s' % (la, lb))
                        else:
                            rep.note(msg + ' (-O0 is informational: promotions not yet canonicalised)')
                    if decisive:
                        rep.ob(not d, '%s:char-signedness' % unit, 'see above') if not d else None
                    samples.append({'unit': unit, 'opt': ol, 'print': pname, 'functions': nf, 'ir_lines': ni,
                                    'differences': len(d), 'decisive': decisive})
    return programs, samples


def run(rep, tier):
    programs, samples = char_clause(rep, tier)
    try:
        from props import c18_ub
    except ImportError:
        c18_ub = None
    extra = {}
    if c18_ub is not None:
        extra = c18_ub.ub_clause(rep, tier)
    rep.coverage.update({
        'programs': programs,
        'disagreements_checked': len(rep.violations),
        'samples': samples,
        'rule': 'unit x optimisation level compiled twice (-fsigned-char / -funsigned-char); normalised IR must be identical',
        'trusted_base': ['clang-14 front end and -O2 pipeline', 'engine/irdiff.py normalisation (drops metadata, attribute groups, declares)'],
        'explanation': 'IR identity under both char signedness settings (+ arithmetic-UB obligations when the absint clause is enabled)',
    })
    rep.coverage.update(extra)
    rep.assumptions.append('identical LLVM IR implies identical compiled behaviour for a fixed back end')
    rep.assumptions.append('cross-compiler and cross-optimisation equality of observable outputs is NOT decided (run-time differential property)')
