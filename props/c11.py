"""C11 - (1) the clause "on any other value type both return false and change nothing": get_raw and parser_to_writer are
analysed with the current type fixed to each non-container constant, and with an error latched.  (2) span exactness and the
continuation position, for bounded documents: get_raw is shown (with the token loop stubbed) to hand back exactly
[cursor before, cursor after the last loop call), and the machine extracted for C06 shows that before a protocol-following
get_raw the cursor is on the BEGIN token of the container and afterwards just behind its matching END, with the following
element reported next."""
from engine import build, irload, runner
from engine.contracts import API, LibHooks
from engine.absval import Int, Ptr, Null
from engine.lin import Aff
from engine.common import need, AnalysisBroken
from props.c03 import make_preset
from props.c04 import WHooks

FNS = ['binson_parser_get_raw', 'binson_parser_to_writer']


class NHooks(WHooks):
    def on_store(self, st, r, off, size, val, ins):
        WHooks.on_store(self, st, r, off, size, val, ins)
        if r.name in ('P', 'STATE', 'W', 'WBUF'):
            self.log.append(('changed', r.name, ins.loc()))

    def on_memset(self, st, r, off, length, byte, ins):
        WHooks.on_memset(self, st, r, off, length, byte, ins)
        if r.name in ('P', 'STATE', 'W', 'WBUF'):
            self.log.append(('changed', r.name, ins.loc()))

    def on_copy(self, st, rd, doff, rs, soff, length, ins):
        WHooks.on_copy(self, st, rd, doff, rs, soff, length, ins)
        if rd.name in ('P', 'STATE', 'W', 'WBUF'):
            self.log.append(('changed', rd.name, ins.loc()))


def post(C, fname, label, outs, log):
    return {'rets': [(st.store.const_of(ret.a) if isinstance(ret, Int) else repr(ret)) for (st, ret) in outs],
            'changed': sorted({(x[1], x[2]) for x in log if x[0] == 'changed'}),
            'scratch': sorted({x[2] for x in log if x[0] == 'anystore'})}


def run(rep, tier):
    with build.Scratch() as sc:
        lib, raws = sc.lib_ir('c11')
        mod = irload.load(lib)
        from engine.contracts import Contracts
        enums = Contracts(mod, LibHooks()).enums
        types = {n: v for n, v in enums.items() if n.startswith('BINSON_TYPE_')}
        need(len(types) >= 10, 'C11: binson_type enumerators not found')
        others = {n: v for n, v in types.items() if n not in ('BINSON_TYPE_OBJECT', 'BINSON_TYPE_ARRAY')}
        tasks = []
        for f in FNS:
            need(f in mod.functions, 'C11: %s not found' % f)
            labels = runner.labels_for(mod, f)
            for tname, tv in sorted(others.items(), key=lambda kv: kv[1]):
                for lb in labels:
                    if not lb.startswith('ok') or lb.endswith('werr'):
                        continue
                    tasks.append((f, lb, {'setup': (lambda C, tv=tv: setattr(C, 'presets', [make_preset(tv)])), 'tname': tname}))
            for lb in labels:
                if lb.startswith('err') and not lb.endswith('werr'):
                    tasks.append((f, lb, {'tname': '(error latched)'}))
        results = runner.run(mod, tasks, hooks_cls=NHooks, post=post)
        for (t, r) in zip(tasks, results):
            tn = t[2]['tname']
            where = '%s [%s], current type %s' % (r['fn'], r['label'], tn)
            need(r['extra']['rets'], 'C11: no exit for %s' % where)
            for rc in r['extra']['rets']:
                rep.ob(rc == 0, '%s:NOOP-RET:%s' % (r['fn'], tn), 'C11 %s returns %r instead of false' % (where, rc), '',
                       sample={'fn': r['fn'], 'current_type': tn, 'entry': r['label'], 'returns': rc})
            rep.ob(not r['extra']['changed'], '%s:NOOP-STATE:%s' % (r['fn'], tn),
                   'C11 %s modifies parser/writer state although the value is not a container: %s' % (where, r['extra']['changed'][:4]), '',
                   sample={'fn': r['fn'], 'current_type': tn, 'stores_to_parser_or_writer_state': 0})
        rep.coverage['to_writer_exits'] = to_writer_clause(rep, mod)
        try:
            span_clause(rep, sc, tier)
        except AnalysisBroken as e:
            if not rep.violations:
                raise
            rep.assumptions.append('span clause not evaluated on this tree: %s' % e)
            print('NOTE C11 span clause not evaluated: %s' % e)
    rep.coverage.update({
        'rule': '2 functions x 8 non-container current types x entry disjuncts (+ error latched): every exit returns false and no store/memset/memmove '
                'reaches the parser struct, the state array, the writer struct or the output buffer',
        'trusted_base': ['clang-14 IR', 'engine/absint*.py'],
        'explanation': 'abstract interpretation per current_type constant; the scratch write to the caller\'s raw->bptr before the type test is outside "parser and writer state"',
    })
    rep.assumptions += ['span exactness and continuation are decided for documents up to the stated bound only (C06 machinery); in-bounds part is C01',
                        'parser_to_writer: that it appends raw.bptr[0..raw.bsize) is the writer bound/prefix rule of C04; not re-decided here']


# ---- clause 2: exact span and continuation (bounded documents) -----------------------------------------------------
def span_clause(rep, sc, tier):
    from engine.contracts import Contracts, _cell
    from props import c06
    lib, raws = sc.lib_ir('c11m', defs=('BINSON_PARSER_WITH_PRINT',))
    mod = irload.load(lib)
    # (a) wrapper rule: with the token loop stubbed, every true exit of get_raw has raw = [cursor at entry, cursor at exit)
    api = 'binson_parser_get_raw'
    fn = mod.functions.get(api)
    need(fn is not None and len(fn.params) == 2, 'C11: %s(parser, raw) not found' % api)
    C0 = Contracts(mod, LibHooks())
    enums = C0._enums()
    n_true = 0
    for tname in ('BINSON_TYPE_OBJECT', 'BINSON_TYPE_ARRAY'):
        need(tname in enums, 'C11: enumerator %s not found' % tname)
        for flags in (None,):
            hooks = c06.StubHooks()
            C = Contracts(mod, hooks)
            lay = C.lay
            (label, st), = [(l, s_) for (l, s_) in C.parser_disjuncts(api) if l == 'ok-d1']
            ok = C.preset_state_cell(st, label, 'current_type', Int(lay.state['current_type'][1] * 8, Aff(enums[tname])))
            need(ok, 'C11: cannot preset the current type')
            from engine.absval import Region
            st.add_region(Region('OUT', 'obj', Aff(2 * lay.ptr)))
            st.mem['OUT'] = {}
            st.owned.add('OUT')
            st.tags[('default', 'OUT')] = 'unknown'
            F = lay.parser
            u0 = _cell(st, 'P', F['buffer_used'][0], F['buffer_used'][1])
            st.frames = [C._root_frame()]
            outs = C.split_bool_returns(C.I.call_function(st, fn, [Ptr('P', Aff(0)), Ptr('OUT', Aff(0))], None))
            need(not getattr(hooks, 'own_writes', None), 'C11: get_raw writes parser state outside the token loop: %s' % (getattr(hooks, 'own_writes', [''])[:1],))
            for (s_, rv) in outs:
                rc = s_.store.const_of(rv.a) if isinstance(rv, Int) else None
                if rc != 1:
                    continue
                n_true += 1
                S = s_.store
                bp = _cell(s_, 'OUT', lay.bbuf['bptr'][0], lay.ptr)
                bs = _cell(s_, 'OUT', lay.bbuf['bsize'][0], lay.ptr)
                u1 = _cell(s_, 'P', F['buffer_used'][0], F['buffer_used'][1])
                okp = isinstance(bp, Ptr) and bp.region == 'BUF' and isinstance(u0, Int) and S.entails_eq0(bp.off.sub(u0.a))
                oks = isinstance(bs, Int) and isinstance(u1, Int) and isinstance(u0, Int) and S.entails_eq0(bs.a.sub(u1.a).add(u0.a))
                if not oks and isinstance(bs, Int) and isinstance(u1, Int) and isinstance(u0, Int):
                    # the same difference taken modulo 2^w (the stubbed loop leaves the cursor unconstrained)
                    sg = bs.a.single()
                    info = s_.syminfo.get(sg[0]) if sg and sg[1] == 1 and bs.a.c == 0 else None
                    oks = info is not None and info.defn is not None and info.defn[0] == 'subw' and info.defn[1] == u1.a and info.defn[2] == u0.a
                calls = s_.tags.get('calls', ())
                rep.ob(okp and oks and len(calls) == 2, 'binson_parser_get_raw:SPAN-FORM:%s' % tname,
                       'C11 SPAN-FORM get_raw (current type %s) returns true with raw = (%r, %r): not [cursor at entry, cursor after the loop calls) '
                       '(loop calls: %r)' % (tname, bp, bs, calls), '',
                       sample={'current_type': tname, 'raw.bptr': 'buffer + cursor at entry', 'raw.bsize': 'cursor at exit - cursor at entry',
                               'loop_calls': [('0x%02x' % c[0]) for c in calls]})
    need(n_true >= 2, 'C11: get_raw has no true exit for container types')
    # (b) the machine: cursor positions around get_raw and the element reported next
    bad, cov = c06.analyse(mod, tier, prop='C11')
    rep.coverage['machine'] = {k: cov[k] for k in ('documents', 'product_states', 'calls_compared', 'bound')}
    for what, text in (('position', 'span'), ('result', 'result'), ('error', 'error')):
        hit = bad.get((what, 'get_raw'))
        if hit is None:
            rep.ob(True, 'binson_parser_get_raw:SPAN-EXACT:%s' % what, '', sample={'call': 'get_raw', 'compared': what})
        else:
            msg, doc, md, seq = hit
            rep.ob(False, 'binson_parser_get_raw:SPAN-EXACT:%s' % what,
                   'C11 SPAN-EXACT get_raw: %s - document %s (max_depth %d) after the calls %s' % (msg, doc, md, ' '.join(seq)), '')
    # continuation: any disagreement of a call that follows a get_raw in its shortest witness sequence
    for (what, api_), (msg, doc, md, seq) in sorted(bad.items()):
        if api_ != 'get_raw' and 'get_raw' in seq[:-1]:
            rep.ob(False, 'binson_parser_get_raw:CONTINUATION:%s' % api_,
                   'C11 CONTINUATION after get_raw the cursor does not continue with the element that follows the container: %s %s - document %s after the calls %s'
                   % (api_, msg, doc, ' '.join(seq)), '')
    if not any(a != 'get_raw' and 'get_raw' in v[3][:-1] for (w, a), v in bad.items()):
        rep.ob(True, 'binson_parser_get_raw:CONTINUATION', '',
               sample={'rule': 'every call sequence containing get_raw agrees with the reference cursor afterwards'})


# ---- clause 3: parser_to_writer hands exactly the extracted span to the writer ------------------------------------------------
class TWHooks(LibHooks):
    """get_raw replaced by a summary (false, or true with raw = a tracked span); every _write call is recorded with its piece"""

    def stub_call(self, st, name, args, ins):
        if name != 'binson_parser_get_raw':
            return None
        lay = self.lay
        out = []
        for ok in (1, 0):
            s = st.copy()
            s.tags['raw_ok'] = ok
            if ok and isinstance(args[1], Ptr):
                bs = s.regions['BUF'].length
                off = s.fresh('raw:off', lay.szw, 0, lay.objmax)
                n = s.fresh('raw:len', lay.szw, 2, lay.objmax)
                s.store.assume_ge0(bs.sub(Aff.sym(off)).sub(Aff.sym(n)))
                r = args[1]
                cells = s.wcells(r.region)
                o1 = r.off.add(lay.bbuf['bptr'][0])
                o2 = r.off.add(lay.bbuf['bsize'][0])
                cells[(o1.key(), lay.ptr)] = (o1, lay.ptr, Ptr('BUF', Aff.sym(off)))
                cells[(o2.key(), lay.ptr)] = (o2, lay.ptr, Int(lay.szw, Aff.sym(n)))
                s.tags['raw_span'] = (off, n)
            out.append((s, Int(1, Aff(ok))))
        return out

    def on_call(self, st, name, args, ins):
        if name == '_write' and len(args) == 2 and isinstance(args[1], Ptr):
            lay = self.lay
            r = args[1]
            bp = (st.cells(r.region) or {}).get((r.off.add(lay.bbuf['bptr'][0]).key(), lay.ptr))
            bz = (st.cells(r.region) or {}).get((r.off.add(lay.bbuf['bsize'][0]).key(), lay.ptr))
            st.tags['writes'] = st.tags.get('writes', ()) + ((bp[2] if bp else None, bz[2] if bz else None, ins.loc()),)

    def on_store(self, st, r, off, size, val, ins):
        LibHooks.on_store(self, st, r, off, size, val, ins)
        if r.name in ('W', 'WBUF'):
            st.tags['wtouched'] = True

    def on_copy(self, st, rd, doff, rs, soff, length, ins):
        LibHooks.on_copy(self, st, rd, doff, rs, soff, length, ins)
        if rd.name in ('W', 'WBUF'):
            st.tags['wtouched'] = True


def to_writer_clause(rep, mod):
    from engine.contracts import Contracts
    api = 'binson_parser_to_writer'
    fn = mod.functions.get(api)
    need(fn is not None, 'C11: %s not found' % api)
    hooks = TWHooks()
    C = Contracts(mod, hooks)
    n = 0
    for (label, st, args) in C.entries(api):
        if not (label.startswith('ok-d1') and label.endswith('wok')):
            continue
        st.frames = [C._root_frame()]
        outs = C.split_bool_returns(C.I.call_function(st, fn, args, None))
        for (s, rv) in outs:
            if 'raw_ok' not in s.tags:
                continue
            n += 1
            S = s.store
            rc = S.const_of(rv.a) if isinstance(rv, Int) else None
            ws = s.tags.get('writes', ())
            if not s.tags['raw_ok']:
                rep.ob(rc == 0 and not ws and not s.tags.get('wtouched'), '%s:TO-WRITER:no-container' % api,
                       'C11 TO-WRITER %s: get_raw failed but the function returns %r / reaches the writer (%d write calls)' % (api, rc, len(ws)), '',
                       sample={'case': 'get_raw returned false', 'returns': rc, 'write_calls': len(ws)})
                continue
            off, ln = s.tags['raw_span']
            ok = len(ws) == 1
            why = '%d write calls' % len(ws)
            if ok:
                bp, bz, loc = ws[0]
                ok = isinstance(bp, Ptr) and bp.region == 'BUF' and S.entails_eq0(bp.off.sub(Aff.sym(off))) and isinstance(bz, Int) and S.entails_eq0(bz.a.sub(Aff.sym(ln)))
                why = 'the piece handed to the writer is (%r, %r), the extracted span is (BUF+%s, %s)' % (bp, bz, off, ln)
            rep.ob(ok, '%s:TO-WRITER:span' % api, 'C11 TO-WRITER %s does not hand exactly the span get_raw returned to the writer: %s' % (api, why), '',
                   sample={'case': 'get_raw returned true', 'write_calls': len(ws), 'piece': 'exactly (raw.bptr, raw.bsize)'})
    need(n >= 2, 'C11: binson_parser_to_writer was not seen to call binson_parser_get_raw (%d exits)' % n)
    return n
