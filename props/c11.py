"""C11 - the clause "on any other value type both return false and change nothing": get_raw and parser_to_writer are analysed
with the current type fixed to each non-container constant, and with an error latched.  Span exactness is NOT decided."""
from engine import build, irload, runner
from engine.contracts import API, LibHooks
from engine.absval import Int, Ptr, Null
from engine.lin import Aff
from engine.common import need
from props.c03 import make_preset
from props.c04 import WHooks

FNS = ['binson_parser_get_raw', 'binson_parser_to_writer']


class NHooks(WHooks):
    def on_store(self, st, r, off, size, val, ins):
        WHooks.on_store(self, st, r, off, size, val, ins)
        if r.name in ('P', 'STATE', 'W', 'WBUF'):
            self.log.append(('changed', r.name, ins.loc()))

    def on_memset(self, st, r, off, length, byte, ins):
        WHooks.on_memset(self, st, r, off, length, byte, ins)
        if r.name in ('P', 'STATE', 'W', 'WBUF'):
            self.log.append(('changed', r.name, ins.loc()))

    def on_copy(self, st, rd, doff, rs, soff, length, ins):
        WHooks.on_copy(self, st, rd, doff, rs, soff, length, ins)
        if rd.name in ('P', 'STATE', 'W', 'WBUF'):
            self.log.append(('changed', rd.name, ins.loc()))


def post(C, fname, label, outs, log):
    return {'rets': [(st.store.const_of(ret.a) if isinstance(ret, Int) else repr(ret)) for (st, ret) in outs],
            'changed': sorted({(x[1], x[2]) for x in log if x[0] == 'changed'}),
            'scratch': sorted({x[2] for x in log if x[0] == 'anystore'})}


def run(rep, tier):
    with build.Scratch() as sc:
        lib, raws = sc.lib_ir('c11')
        mod = irload.load(lib)
        from engine.contracts import Contracts
        enums = Contracts(mod, LibHooks()).enums
        types = {n: v for n, v in enums.items() if n.startswith('BINSON_TYPE_')}
        need(len(types) >= 10, 'C11: binson_type enumerators not found')
        others = {n: v for n, v in types.items() if n not in ('BINSON_TYPE_OBJECT', 'BINSON_TYPE_ARRAY')}
        tasks = []
        for f in FNS:
            need(f in mod.functions, 'C11: %s not found' % f)
            labels = runner.labels_for(mod, f)
            for tname, tv in sorted(others.items(), key=lambda kv: kv[1]):
                for lb in labels:
                    if not lb.startswith('ok') or lb.endswith('werr'):
                        continue
                    tasks.append((f, lb, {'setup': (lambda C, tv=tv: setattr(C, 'presets', [make_preset(tv)])), 'tname': tname}))
            for lb in labels:
                if lb.startswith('err') and not lb.endswith('werr'):
                    tasks.append((f, lb, {'tname': '(error latched)'}))
        results = runner.run(mod, tasks, hooks_cls=NHooks, post=post)
        for (t, r) in zip(tasks, results):
            tn = t[2]['tname']
            where = '%s [%s], current type %s' % (r['fn'], r['label'], tn)
            need(r['extra']['rets'], 'C11: no exit for %s' % where)
            for rc in r['extra']['rets']:
                rep.ob(rc == 0, '%s:NOOP-RET:%s' % (r['fn'], tn), 'C11 %s returns %r instead of false' % (where, rc), '',
                       sample={'fn': r['fn'], 'current_type': tn, 'entry': r['label'], 'returns': rc})
            rep.ob(not r['extra']['changed'], '%s:NOOP-STATE:%s' % (r['fn'], tn),
                   'C11 %s modifies parser/writer state although the value is not a container: %s' % (where, r['extra']['changed'][:4]), '',
                   sample={'fn': r['fn'], 'current_type': tn, 'stores_to_parser_or_writer_state': 0})
    rep.coverage.update({
        'rule': '2 functions x 8 non-container current types x entry disjuncts (+ error latched): every exit returns false and no store/memset/memmove '
                'reaches the parser struct, the state array, the writer struct or the output buffer',
        'trusted_base': ['clang-14 IR', 'engine/absint*.py'],
        'explanation': 'abstract interpretation per current_type constant; the scratch write to the caller\'s raw->bptr before the type test is outside "parser and writer state"',
    })
    rep.assumptions += ['exactness of the returned span (BEGIN to matching END) depends on the bytes and is NOT decided; its in-bounds part is C01']
