"""C14, clause RENDER: the separator structure of the printed text, decided on extracted machines for bounded documents.

Three things are extracted from the code by abstract interpretation and composed:
  - the token loop in VERIFY mode as a step relation that also records which token kind it reports to the callback
    (props/stepm.py with a stubbed callback),
  - the text callback as a table (token kind x separator state x in-array) -> (emitted pieces, next separator state)
    (the table C14's sibling rule already computes),
  - the separator state the driver starts with.
For every well-formed document up to the bound the composition yields the text with names and values abstracted
("N", "S", I, D, T, "0x"); it must equal the reference rendering {"N":v,...} / [v,...] - exactly one comma between
siblings and none elsewhere."""
import os

from engine.contracts import Contracts, LibHooks, Layout
from engine.absval import Int, Ptr, Null, NULL
from engine.lin import Aff
from engine.common import need, AnalysisBroken
from props import stepm, c06, c08, c14, c02m

TOSTR_CB = '_binson_to_string_cb'
PRINT_CB = '_binson_print_cb'


def piece(fmt, args, mod):
    """one emitted printf piece -> abstract text"""
    if not args:
        return fmt
    if fmt == '"%*.*s":':
        return '"N":'
    if fmt == '"%*.*s"':
        return '"S"'
    if fmt == '%s':
        return 'T'
    if fmt in ('%lf', '%f'):
        return 'D'
    if fmt in ('%ld', '%lld', '%li', '%lli', '%d'):
        return 'I'
    if fmt in ('%02x',):
        return ''
    raise AnalysisBroken('C14: unrecognised format piece %r' % (fmt,))


class CallbackTable:
    """(token kind, separator state, array depth of the current level) -> {(abstract text, next state)}; rows are evaluated on demand"""

    def __init__(self, mod, cbname, ctxkind):
        self.mod = mod
        self.C = Contracts(mod, c14.EmitHooks())
        self.fn = mod.functions.get(cbname)
        need(self.fn is not None, 'C14: %s not found' % cbname)
        self.ctxkind = ctxkind
        self.rows = {}

    def get(self, key):
        r = self.rows.get(key)
        if r is None:
            k, ps, adepth = key
            res, unproven = c14.traces(self.C, self.fn, self.ctxkind, k, ps, adepth)
            r = set()
            for (tr, nps) in res:
                r.add((''.join(piece(e[0], e[1], self.mod) for e in tr), nps))
            self.rows[key] = r
        return r


class _DriverHooks(LibHooks):
    """runs a text driver up to its call of binson_parser_verify and reads the separator state it has set up"""

    def stub_call(self, st, name, args, ins):
        if name != c02m.VERIFY:
            return None
        lay = self.lay
        F = lay.parser
        cb = (st.cells('P') or {}).get(((F['cb'][0], ()), F['cb'][1]))
        cx = (st.cells('P') or {}).get(((F['cb_context'][0], ()), F['cb_context'][1]))
        val = None
        if cx is not None and isinstance(cx[2], Ptr):
            off = cx[2].off
            if self.pstate_off:
                off = off.add(self.pstate_off)
            c = (st.cells(cx[2].region) or {}).get((off.key(), 1))
            if c is not None and isinstance(c[2], Int):
                val = st.store.const_of(c[2].a)
        self.seen.append((getattr(cb[2], 'name', None) if cb else None, val))
        return [(st, Int(1, Aff(0)))]


def initial_pstate(mod, cbname, ctxkind):
    driver = 'binson_parser_print' if ctxkind == 'print' else 'binson_parser_to_string'
    fn = mod.functions.get(driver)
    need(fn is not None, 'C14: %s not found' % driver)
    hooks = _DriverHooks()
    hooks.seen = []
    hooks.pstate_off = 0
    if ctxkind != 'print':
        f = {n: (o, s) for (n, o, s) in (mod.di_struct_fields('_to_string_ctx') or [])}
        need('pstate' in f, 'C14: struct _to_string_ctx has no field pstate')
        hooks.pstate_off = f['pstate'][0]
    C = Contracts(mod, hooks)
    for (label, st, args) in C.entries(driver):
        if label.startswith('ok-d0') and 'nulltext' not in label:
            st.frames = [C._root_frame()]
            C.I.call_function(st, fn, args, None)
            break
    vals = {v for (cb, v) in hooks.seen if cb == cbname}
    need(len(vals) == 1 and None not in vals, 'C14: the separator state %s starts with is not one constant (%r)' % (driver, hooks.seen[:3]))
    return vals.pop()


def reference(tree):
    k = tree[0]
    if k == 'object':
        return '{' + ','.join('"N":' + reference(c) for c in tree[1]) + '}'
    if k == 'array':
        return '[' + ','.join(reference(c) for c in tree[1]) + ']'
    return {'integer': 'I', 'string': '"S"', 'boolean': 'T', 'double': 'D', 'bytes': '"0x"'}[k]


_G = {}


def render(M, T, tree, md, mode, depth0, ps0=0):
    toks = c06.tokens(tree)
    offs = []
    o = 0
    for (_, raw) in toks:
        offs.append(o)
        o += len(raw)
    ptype = 1 if tree[0] == 'object' else 2
    doc = (toks, offs, o, ptype, md)
    st = (0, depth0, tuple((0, 0, 0, None) for _ in range(md)))
    O = depth0
    AO = 0
    ps = ps0
    text = ''
    for _ in range(len(toks) + 4):
        r = M.step(doc, st, mode, O, AO)
        if r[0] == 'err':
            return None, 'the verify loop raises an error on a valid document: %s' % (r[2],)
        st2 = r[1]
        for k in M.last_cbcalls:
            need(k is not None, 'C14: the token kind passed to the callback is not a constant')
            adepth = st2[2][max(st2[1] - 1, 0)][1]
            outs = T.get((k, ('exact', ps), adepth))
            need(outs is not None, 'C14: no callback table row for token kind 0x%04x' % k)
            texts = {t for (t, n) in outs}
            nxt = {n for (t, n) in outs}
            need(len(texts) == 1 and len(nxt) == 1, 'C14: callback row (0x%04x, %d, %s) is not deterministic after abstraction: %r' % (k, ps, adepth, sorted(outs)))
            text += texts.pop()
            n = nxt.pop()
            need(n.startswith('const:'), 'C14: next separator state is not a constant: %r' % n)
            ps = int(n[6:])
        if r[0] == 'ret':
            return text, ''
        st, mode = st2, r[2]
    return None, 'the verify loop does not stop'


def _part(k):
    M, T, jobs = _G['M'], _G['T'], _G['jobs']
    out = {'n': 0, 'bad': None}
    i = 0
    try:
        for (n_nodes, depth, scalars) in _G['bounds']:
            for kind in ('object', 'array'):
                for tree in c06.trees(n_nodes, depth, scalars, kind):
                    i += 1
                    if i % jobs != k:
                        continue
                    out['n'] += 1
                    md = max(c06._odepth(tree) + (1 if kind == 'array' else 0), 1)
                    text, why = render(M, T, tree, md, _G['mode'], 0 if kind == 'object' else 1, _G['ps0'])
                    ref = reference(tree)
                    if text != ref:
                        cand = (c06.show(tree), ref, text, why)
                        if out['bad'] is None or len(cand[0]) < len(out['bad'][0]):
                            out['bad'] = cand
    except AnalysisBroken as e:
        return {'broken': str(e)}
    return out


def render_clause(rep, mod, tier):
    lay = Layout(mod)
    tc = stepm.token_classes()
    table, modes, stats = c08.extract(mod, lookups=False, stubcmp=True, cbstub=True)
    C = Contracts(mod, LibHooks())
    enums = C._enums()
    M = c06.Machine(table, {}, tc, lay, enums)
    M.prop = 'C14'
    vsum = c02m.verify_summary(mod, tc)
    vmodes = {p['calls'][0][0] for ps in vsum.values() for p in ps if p['calls']}
    need(len(vmodes) == 1, 'C14: verify passes different scan modes')
    mode = vmodes.pop()
    bounds = [(5, 3, ('integer', 'string')), (4, 3, ('integer', 'string', 'boolean', 'double', 'bytes'))] if tier == 'quick' else \
        [(6, 3, ('integer', 'string')), (5, 3, ('integer', 'string', 'boolean', 'double', 'bytes'))]
    jobs = min(16, os.cpu_count() or 4)
    import multiprocessing as mp
    import sys
    sys.setrecursionlimit(20000)
    for (cbname, ctxkind) in ((TOSTR_CB, 'to_string'), (PRINT_CB, 'print')):
        T = CallbackTable(mod, cbname, ctxkind)
        ps0 = initial_pstate(mod, cbname, ctxkind)
        _G.update(M=M, T=T, bounds=bounds, jobs=jobs, mode=mode, ps0=ps0)
        with mp.get_context('fork').Pool(jobs) as pool:
            parts = pool.map(_part, range(jobs))
        n = 0
        bad = None
        for p in parts:
            if 'broken' in p:
                raise AnalysisBroken(p['broken'])
            n += p['n']
            if p['bad'] is not None and (bad is None or len(p['bad'][0]) < len(bad[0])):
                bad = p['bad']
        need(n >= 200, 'C14: only %d documents rendered' % n)
        if bad is None:
            rep.ob(True, '%s:RENDER' % cbname, '', sample={'callback': cbname, 'documents': n, 'example': reference(('object', (('integer',), ('array', (('string',),)))))})
        else:
            doc, ref, text, why = bad
            rep.ob(False, '%s:RENDER' % cbname,
                   'C14 RENDER %s: document %s is rendered as %s, the reference rendering is %s%s' % (cbname, doc, text, ref, (' (%s)' % why) if why else ''),
                   'names and values are abstracted: "N": field name, "S" string, I integer, D double, T boolean, "0x" bytes')
        rep.coverage.setdefault('render', {})[cbname] = {'documents': n}
    rep.coverage['render']['bound'] = ['all object and array documents with at most %d values below the root, nesting <= %d, scalar kinds %s' % (n_, d_, list(sc)) for (n_, d_, sc) in bounds]


# ---- clause FORMAT: how each value is converted -----------------------------------------------------------------------------
def format_clause(rep, mod):
    """each value kind is converted by a printf directive that means what the property says: integers - signed decimal of the
    64-bit value; doubles - %f; booleans - the words true / false for 1 / 0; bytes - two lower-case hex digits per byte,
    zero padded; names and strings - %s limited to the span length.  Directives are compared by meaning, not by text."""
    from engine.externals import parse_format
    lay = Layout(mod)
    n = 0
    for (cbname, ctxkind) in ((TOSTR_CB, 'to_string'), (PRINT_CB, 'print')):
        C = Contracts(mod, c14.EmitHooks())
        fn = mod.functions.get(cbname)
        need(fn is not None, 'C14: %s not found' % cbname)
        kinds = set()
        for ins in fn.instructions():
            if ins.op == 'switch':
                kinds.update(k for (k, lb) in ins.attrs['cases'])

        def convs(kind, bool_byte=None):
            mark = len(C.hooks.log)
            res, unproven = c14.traces(C, fn, ctxkind, kind, 2, False, bool_byte)
            out = []
            seen = set()
            for x in C.hooks.log[mark:]:
                if x[0] == 'printf' and x[4] == cbname:
                    fmt = x[2]
                    items = [it for it in parse_format(fmt) if it[0] == 'conv']
                    if items and (fmt, x[1].loc()) not in seen:
                        seen.add((fmt, x[1].loc()))
                        out.append((fmt, items, x[3], x[1].loc()))
            return out, res

        # classify the token kinds by what the RENDER abstraction makes of their traces
        role = {}
        for k in sorted(kinds):
            cs, res = convs(k)
            texts = set()
            for (tr, nps) in res:
                try:
                    texts.add(''.join(piece(e[0], e[1], mod) for e in tr))
                except AnalysisBroken:
                    texts.add('?')
            for t_, r_ in (('I', 'integer'), ('D', 'double'), ('T', 'boolean'), ('"0x"', 'bytes'), ('"S"', 'string'), ('"N":', 'name')):
                if texts and all(x.endswith(t_) or x == t_ for x in texts):
                    role[r_] = (k, cs)
        for r_ in ('integer', 'double', 'boolean', 'bytes', 'string', 'name'):
            need(r_ in role, 'C14: no token kind of %s renders as a %s' % (cbname, r_))

        def ob(ok, what, msg, fmt=''):
            nonlocal n
            n += 1
            rep.ob(ok, '%s:FORMAT:%s' % (cbname, what), 'C14 FORMAT %s: %s' % (cbname, msg), 'format string: %r' % fmt,
                   sample={'callback': cbname, 'value_kind': what, 'format': fmt})
        # integer
        k, cs = role['integer']
        ok = len(cs) == 1 and len(cs[0][1]) == 1
        if ok:
            (_, flags, width, prec, length, spec) = cs[0][1][0]
            size = {'': 4, 'l': lay.ptr, 'll': 8, 'j': 8, 'z': lay.ptr, 't': lay.ptr}.get(length, 0)
            ok = spec in ('d', 'i') and flags == '' and width is None and prec is None and size == 8
        ob(ok, 'integer', 'an integer is not printed as the signed decimal of its 64-bit value (directive %r)' % (cs[0][0] if cs else None,), cs[0][0] if cs else '')
        # double
        k, cs = role['double']
        ok = len(cs) == 1 and len(cs[0][1]) == 1
        if ok:
            (_, flags, width, prec, length, spec) = cs[0][1][0]
            ok = spec == 'f' and flags == '' and width is None and prec is None and length in ('', 'l')
        ob(ok, 'double', 'a double is not printed as printf %%f (directive %r)' % (cs[0][0] if cs else None,), cs[0][0] if cs else '')
        # bytes
        k, cs = role['bytes']
        hexes = [c for c in cs if any(it[5] in ('x', 'X', 'o', 'u', 'd', 'i') for it in c[1])]
        ok = len(hexes) >= 1
        for c in hexes:
            for (_, flags, width, prec, length, spec) in c[1]:
                ok = ok and spec == 'x' and '0' in flags and '-' not in flags and '#' not in flags and width == 2 and prec is None and length in ('', 'hh', 'h')
        ob(ok, 'bytes', 'a byte is not printed as two zero-padded lower-case hex digits (directives %r)' % ([c[0] for c in hexes],), hexes[0][0] if hexes else '')
        # names and strings: %s limited by a precision taken from the arguments
        for r_ in ('name', 'string'):
            k, cs = role[r_]
            ok = len(cs) == 1 and len(cs[0][1]) == 1
            if ok:
                (_, flags, width, prec, length, spec) = cs[0][1][0]
                ok = spec == 's' and prec == '*' and flags == '' and length == ''
            ob(ok, r_, 'a %s is not printed by %%s limited to its length (directive %r)' % (r_, cs[0][0] if cs else None), cs[0][0] if cs else '')
        # boolean: the word for 1 is "true", for 0 "false"
        k, _ = role['boolean']
        for (bv, word) in ((1, 'true'), (0, 'false')):
            cs, res = convs(k, bool_byte=bv)
            words = set()
            for c in cs:
                (_, flags, width, prec, length, spec) = c[1][0]
                okd = spec == 's' and flags == '' and width is None and prec is None
                words.add(None if okd else c[0])
            # the argument string: a global constant named in the emit trace
            got = set()
            for (tr, nps) in res:
                for e in tr:
                    for a in e[1]:
                        if isinstance(a, str) and a.startswith('global:@'):
                            g = mod.globals.get(a[len('global:@'):])
                            init = g.get('init') if g else None
                            if init and init[0] == 'cstr':
                                got.add(bytes(init[1]).split(b'\0')[0].decode('latin-1'))
            ob(got == {word} and words == {None}, 'boolean-%d' % bv, 'a boolean %d is not printed as the word %s (printed: %r)' % (bv, word, sorted(got)), '%s')
    return n
