"""C06 - cursor navigation matches the document structure, decided on the machine extracted from the code.

1. The token loop is extracted as a step relation (props/stepm.py): one abstract evaluation per (token class, level
   flags, depth class, scan mode), everything else symbolic.
2. Each navigation function (next, go_into_*, leave_*, get_raw) is extracted as a small decision tree over calls of
   the token loop (the loop itself stubbed): which scan mode it passes, what it tests before, how it maps the loop's
   (result, error) to its own result.
3. The product of that extracted machine with a reference cursor over the decoded tree is explored exhaustively for
   every document up to a size bound and EVERY protocol-following call sequence on it (breadth-first over the
   product states, so sequences are not sampled): each call's result, the depth change, the reported type after a
   successful next and the absence of errors must agree with the reference.

This is a finite-state exploration of a machine obtained from the source by static analysis; no library code runs.
The bound is on document size only (all documents up to N tokens / depth 3); larger documents are NOT covered."""
import itertools
import json
import os

from engine import build, irload
from engine.contracts import Contracts, LibHooks, Layout
from engine.absval import Int, Ptr, Null, Top, Region, NULL
from engine.lin import Aff
from engine.common import need, AnalysisBroken
from props import stepm, c08

LOOKUP = 'binson_parser_field_with_length'
NAV = {'next': 'binson_parser_next', 'go_into_object': 'binson_parser_go_into_object',
       'go_into_array': 'binson_parser_go_into_array', 'leave_object': 'binson_parser_leave_object',
       'leave_array': 'binson_parser_leave_array', 'get_raw': 'binson_parser_get_raw'}
KIND_ENUM = {'object': 'BINSON_TYPE_OBJECT', 'array': 'BINSON_TYPE_ARRAY', 'string': 'BINSON_TYPE_STRING',
             'bytes': 'BINSON_TYPE_BYTES', 'integer': 'BINSON_TYPE_INTEGER', 'double': 'BINSON_TYPE_DOUBLE',
             'boolean': 'BINSON_TYPE_BOOLEAN'}


# ---- 2. wrapper summaries ------------------------------------------------------------------------------------------
class StubHooks(LibHooks):
    """replaces the token loop by a summary: any (result, error) combination, everything it may write havoced"""

    def on_store(self, st, r, off, size, val, ins):
        LibHooks.on_store(self, st, r, off, size, val, ins)
        if r.name in ('P', 'STATE'):
            # a navigation function that changes parser state outside the token loop is not modelled by the decision tree
            self.own_writes = getattr(self, 'own_writes', []) + ['%s+%r at %s' % (r.name, off, ins.loc())]

    def on_memset(self, st, r, off, length, byte, ins):
        LibHooks.on_memset(self, st, r, off, length, byte, ins)
        if r.name in ('P', 'STATE'):
            self.own_writes = getattr(self, 'own_writes', []) + ['memset %s at %s' % (r.name, ins.loc())]

    MAX_LOOP_CALLS = 10

    def stub_call(self, st, name, args, ins):
        if name == stepm.CMP_FN:
            return stepm.cmp_stub(st, args)
        if name != stepm.STEP_FN:
            return None
        if sum(1 for c in st.tags.get('calls', ()) if c[0] != 'cmp') >= self.MAX_LOOP_CALLS:
            return []          # summaries are truncated here; the explorer reports if it ever needs a longer one
        lay = self.lay
        F = lay.parser
        mode = st.store.const_of(args[1].a) if isinstance(args[1], Int) else None
        lookup = not isinstance(args[2], Null)
        out = []
        for (r, e) in ((1, 0), (0, 0), (0, 1)):
            s = st.copy()
            s.tags['calls'] = s.tags.get('calls', ()) + ((mode, lookup, r, e),)
            for name_ in ('buffer_used', 'depth'):
                o = Aff(F[name_][0])
                s.wcells('P')[(o.key(), F[name_][1])] = (o, F[name_][1], s.fresh_int('stub:' + name_, F[name_][1] * 8))
            o = Aff(F['error_flags'][0])
            s.wcells('P')[(o.key(), 4)] = (o, 4, Int(32, Aff(0)) if e == 0 else s.fresh_int('stub:error', 32, 1, 255))
            # the state array is havoced; current_state points to "the current level after the call", an entry at an unknown
            # index whose flags and current_type are tracked symbols: a function that looks at them after the call gets a
            # decision-tree node the explorer resolves with the machine's actual state
            s.mem['STATE'] = {}
            s.owned.add('STATE')
            s.tags[('havoc', 'STATE')] = 'all'
            s.tags['J'] = False
            i = sum(1 for c in s.tags['calls'] if c[0] != 'cmp') - 1
            S_ = lay.state
            lv = s.fresh('post:level', 8, 0, 254)
            md = s.regions['STATE'].length
            s.store.assume_ge0(md.sub(Aff.sym(lv).add(1).mul(lay.ssize)))
            base = Aff.sym(lv).mul(lay.ssize)
            o = Aff(F['current_state'][0])
            s.wcells('P')[(o.key(), F['current_state'][1])] = (o, F['current_state'][1], Ptr('STATE', base))
            post = []
            for field in ('flags', 'current_type'):
                w = S_[field][1] * 8
                sym = s.fresh('post:%s' % field, w)
                oo = base.add(S_[field][0])
                s.wcells('STATE')[(oo.key(), S_[field][1])] = (oo, S_[field][1], Int(w, Aff.sym(sym)))
                post.append((i, field, sym))
            s.tags['post'] = s.tags.get('post', ()) + tuple(post)
            out.append((s, Int(1, Aff(r))))
        return out


def post_conditions(s):
    """what a path assumes about the level state after each loop call: ((call index, field, lo, hi, excluded values), ...)"""
    S = s.store
    out = []
    for (i, field, sym) in s.tags.get('post', ()):
        if sym not in S.ivl:
            continue
        lo, hi = S.ivl[sym]
        excl = []
        for e in S.neq:
            sg = e.single() if len(e.t) == 1 else None
            if sg and sg[0] == sym and sg[1] in (1, -1):
                excl.append(-e.c * sg[1])
        w = s.syminfo[sym].w
        if lo == 0 and hi == (1 << w) - 1 and not excl:
            continue
        out.append((i, field, lo, hi, tuple(sorted(excl))))
    return tuple(out)


def wrapper_summary(mod, api, flags_alphabet, type_values):
    """-> {(flags, ctype, dz): [ {'calls': ((mode, lookup, r, e), ...), 'ret': 0/1} ... ]}"""
    fn = mod.functions.get(api)
    need(fn is not None, 'C06: %s not found' % api)
    res = {}
    for flags in flags_alphabet:
        for ctype in type_values:
            for dz in (True, False):
                hooks = StubHooks()
                C = Contracts(mod, hooks)
                lay = C.lay
                st = C.I.new_state()
                F = lay.parser
                w8 = F['depth'][1] * 8
                md = st.fresh('w:md', w8, 1, 255)
                bs = st.fresh('w:bs', lay.szw, 2, lay.objmax)
                C.parser_regions(st, Aff.sym(bs), Aff.sym(md))

                def put(name, v):
                    C.setcell(st, 'P', F[name][0], F[name][1], v)
                put('type', st.fresh_int('w:ptype', F['type'][1] * 8, 1, 2))
                put('max_depth', Int(w8, Aff.sym(md)))
                put('buffer_size', Int(lay.szw, Aff.sym(bs)))
                put('buffer', Ptr('BUF', Aff(0)))
                put('state', Ptr('STATE', Aff(0)))
                put('cb', NULL)
                put('cb_context', NULL)
                put('error_flags', Int(32, Aff(0)))
                u = st.fresh('w:u', lay.szw, 0, lay.objmax)
                st.store.assume_ge0(Aff.sym(bs).sub(Aff.sym(u)))
                put('buffer_used', Int(lay.szw, Aff.sym(u)))
                if dz:
                    d = Aff(0)
                    base = Aff(0)
                else:
                    ds = st.fresh('w:D', w8, 1, 255)
                    st.store.assume_ge0(Aff.sym(md).sub(Aff.sym(ds)))
                    d = Aff.sym(ds)
                    base = d.sub(1).mul(lay.ssize)
                put('depth', Int(w8, d))
                put('current_state', Ptr('STATE', base))
                st.tags[('default', 'STATE')] = 'unknown'
                st.tags[('default', 'P')] = 'unknown'
                st.tags['J'] = True
                S_ = lay.state
                for field, val in (('flags', flags), ('current_type', ctype)):
                    o = base.add(S_[field][0])
                    st.wcells('STATE')[(o.key(), S_[field][1])] = (o, S_[field][1], Int(S_[field][1] * 8, Aff(val)))
                st.tags['record_cmp_in_calls'] = True
                C.I.ctx.limits['unroll'] = (api,)
                args = [Ptr('P', Aff(0))]
                if len(fn.params) == 3:      # field_with_length(parser, name, length)
                    n_ = st.fresh('w:namelen', lay.szw, 0, lay.objmax)
                    st.add_region(Region('USPAN', 'span', Aff.sym(n_), readonly=True, content='bytes'))
                    args += [Ptr('USPAN', Aff(0)), Int(lay.szw, Aff.sym(n_))]
                if len(fn.params) == 2:      # get_raw(parser, raw)
                    st.add_region(Region('OUT', 'obj', Aff(2 * lay.ptr)))
                    st.mem['OUT'] = {}
                    st.owned.add('OUT')
                    st.tags[('default', 'OUT')] = 'unknown'
                    args.append(Ptr('OUT', Aff(0)))
                need(len(fn.params) == len(args), 'C06: unexpected parameter list of %s' % api)
                st.frames = [C._root_frame()]
                outs = C.split_bool_returns(C.I.call_function(st, fn, args, None))
                ow = getattr(hooks, 'own_writes', None)
                need(not ow, 'C06: %s writes parser state outside the token loop (%s): its decision tree would not describe it' % (api, (ow or [''])[0]))
                paths = []
                for (s, rv) in outs:
                    rc = s.store.const_of(rv.a) if isinstance(rv, Int) else None
                    need(rc is not None, 'C06: result of %s is not decided by (loop result, error) (flags 0x%x, type %d)' % (api, flags, ctype))
                    paths.append({'calls': s.tags.get('calls', ()), 'ret': 1 if rc else 0, 'post': post_conditions(s)})
                res[(flags, ctype, dz)] = paths
    return res


# ---- 3a. documents -------------------------------------------------------------------------------------------------
SCALARS = {'integer': bytes([0x10, 0x01]), 'string': bytes([0x14, 0x01, 0x61]), 'boolean': bytes([0x44]),
           'double': bytes([0x46, 0, 0, 0, 0, 0, 0, 0xf0, 0x3f]), 'bytes': bytes([0x18, 0x01, 0x00])}


def trees(n, depth, scalars, kind):
    """all container trees of `kind` with at most n value nodes below the root and nesting <= depth"""
    def values(budget, d):
        # yields (value, cost)
        for s in scalars:
            yield (s,), 1
        if d > 0 and budget >= 1:
            for k in ('object', 'array'):
                for (c, cost) in children(budget - 1, d - 1):
                    yield (k, c), cost + 1

    def children(budget, d):
        # sequences of values with total cost <= budget
        yield (), 0
        if budget <= 0:
            return
        for (v, c1) in values(budget, d):
            for (rest, c2) in children(budget - c1, d):
                yield (v,) + rest, c1 + c2
    for (c, cost) in children(n, depth):
        yield (kind, c)


def tokens(tree, spans=None, names=None):
    """token list of a document: (class, bytes); names are generated ascending.  spans (optional dict) receives
    node path -> (index of its first token, index of its last token)"""
    out = []

    def emit(v, path):
        k = v[0]
        first = len(out)
        if k == 'object':
            out.append(('object_begin', bytes([0x40])))
            for i, ch in enumerate(v[1]):
                if names is not None:
                    names[len(out)] = (path, i)
                out.append(('string', bytes([0x14, 0x01, 0x61 + i])))     # field name
                emit(ch, path + (i,))
            out.append(('object_end', bytes([0x41])))
        elif k == 'array':
            out.append(('array_begin', bytes([0x42])))
            for i, ch in enumerate(v[1]):
                emit(ch, path + (i,))
            out.append(('array_end', bytes([0x43])))
        else:
            out.append((k, SCALARS[k]))
        if spans is not None:
            spans[path] = (first, len(out) - 1)
    emit(tree, ())
    return out


# ---- 3b. the extracted machine ----------------------------------------------------------------------------------------
class Machine:
    def __init__(self, table, wrappers, tc, lay_info, enums):
        self.table = table
        self.wrappers = wrappers
        self.tc = tc
        self.enums = enums
        self.cache = {}
        self.prop = 'C06'

    def tokclass(self, b):
        for name, (lo, hi) in self.tc.items():
            if lo <= b <= hi:
                return name
        raise AnalysisBroken('C06: byte 0x%02x has no token class' % b)

    @staticmethod
    def holds(cond, env):
        for o, (lo, hi) in cond['ivl'].items():
            v = env.get(o)
            if v is not None and not (lo <= v <= hi):
                return False
        for (c, t) in cond['rel']:
            s = c
            for (o, k) in t:
                if o not in env:
                    s = None
                    break
                s += k * env[o]
            if s is not None and s < 0:
                return False
        for (c, t) in cond['neq']:
            s = c
            for (o, k) in t:
                if o not in env:
                    s = None
                    break
                s += k * env[o]
            if s is not None and s == 0:
                return False
        return True

    def step(self, doc, st, mode, O, AO, lookup=False, want=None):
        """one iteration; st = (ti, depth, levels) with levels[i] = (flags, array_depth, current_type, name token or None)
        -> ('cont', st', mode') | ('ret', st', r) | ('err', code, why).  `want(ti)` is the oracle for the comparison of the
        name token ti with the name being looked up; the ordering comparison of a valid document always says "less"."""
        ti, depth, levels = st
        toks, offs, total, ptype, md = doc
        if ti >= len(toks):
            return ('err', 'end', 'the cursor is at the end of the buffer and another token is read')
        cls, raw = toks[ti]
        b = max(depth - 1, 0)
        if b >= len(levels):
            return ('err', 'state', 'the current level lies outside the state array (depth %d, max_depth %d)' % (depth, md))
        flags, adepth, ctype, nametok = levels[b]
        key = (self.tokclass(raw[0]), flags, depth == 0, bool(lookup))
        bymode = self.table.get(key)
        need(bymode is not None and mode in bymode, '%s: no extracted step for %r mode 0x%02x' % (self.prop, key, mode))
        env = {'k:md': md, 'k:bs': total, 'k:u': offs[ti], 'k:O': O, 'k:AO': AO, 'k:A': adepth, 'k:ctype': ctype,
               'k:tok': raw[0], 'k:ptype': ptype}
        if depth > 0:
            env['k:D'] = depth
        ck = (key, mode, tuple(sorted(env.items())))
        hit = self.cache.get(ck)
        if hit is None:
            hit = [o for o in bymode[mode] if self.holds(o['cond'], env)]
            self.cache[ck] = hit
        cands = []
        memo = {}
        for o in hit:
            ok = True
            for (kinds, sign) in o.get('cmps', ()):
                if kinds not in memo:
                    memo[kinds] = self.oracle(kinds, ti, nametok, want)
                    if memo[kinds] == 2:
                        return ('err', 'scope', 'the lookup compares the wanted name with a name that is not a field of the object the cursor is in '
                                                '(a name of a nested or enclosing object)')
                ok = ok and sign == memo[kinds]
            if ok:
                # a name is compared with the previous one exactly when one is recorded at this level
                has_order_cmp = any(k == ('level', 'local') for (k, sg) in o.get('cmps', ()))
                records_name = any(f == 'current_name.bptr' and d_[0] == 'ptr' for ((lv_, f), d_) in o['eff'])
                if has_order_cmp and nametok is None:
                    ok = False
                if records_name and not has_order_cmp and nametok is not None:
                    ok = False
            if ok:
                cands.append(o)
        views = {}
        for o in cands:
            if o['err'] == 0:
                views.setdefault(self.view(o, env), o)
        if not views:
            codes = sorted({o['err'] for o in cands})
            return ('err', codes, 'every outcome of this step on a valid token raises an error (codes %r)' % codes)
        if len(views) > 1:
            raise AnalysisBroken('%s: step %r mode 0x%02x is not determined by the modelled state: %r' % (self.prop, key, mode, sorted(views, key=repr)[:3]))
        (v,) = views
        kind, retsf, ddepth, csl, cursor, eff, cbcalls = v
        self.last_cbcalls = cbcalls
        lv = list(levels)
        for (lvl, field, val) in eff:
            i = b + lvl
            if not (0 <= i < len(lv)):
                return ('err', 'state', 'a state entry outside the array is written (level %d)' % i)
            f, a, c, n = lv[i]
            if field == '*':
                f, a, c, n = 0, 0, 0, None
            elif field == 'flags':
                f = val
            elif field == 'array_depth':
                a = val
            elif field == 'current_type':
                c = val
            elif field == 'name':
                n = ti if val else None
            lv[i] = (f, a, c, n)
        nd = depth + ddepth
        if cursor == 'adv':
            nti = ti + 1
        elif cursor == 'same':
            nti = ti
        elif cursor == 'back' and lookup:
            nti = ti          # the rewind of an overshooting lookup: back to the start of the name token (C07 decides the amount)
        else:
            return ('err', 'cursor', 'cursor movement %r of a non-error step' % cursor)
        nb = max(nd - 1, 0)
        if csl is None or b + csl != nb:
            return ('err', 'current_state', 'current_state does not follow the depth (level %r, depth %d)' % (None if csl is None else b + csl, nd))
        nst = (nti, nd, tuple(lv))
        if kind == 'cont':
            return ('cont', nst, retsf)
        return ('ret', nst, retsf)

    def oracle(self, kinds, ti, nametok, want):
        """answers for the oracles the step relation was extracted with; this default describes a VALID document"""
        if kinds == ('level', 'local'):
            return -1             # every name is greater than the previous one of its object
        if kinds == ('local', 'wanted'):
            need(want is not None, '%s: a lookup comparison is made outside a lookup' % self.prop)
            return want(ti)
        if kinds == ('intform',):
            return 1              # integers are in their shortest form
        raise AnalysisBroken('%s: unexpected oracle question %r in the token loop' % (self.prop, kinds))

    def view(self, o, env):
        eff = []
        for ((lvl, field), desc) in o['eff']:
            if field in ('flags', 'array_depth', 'current_type'):
                if desc[0] == 'c':
                    val = desc[1]
                elif desc[0] == 'aff':
                    val = desc[2]
                    for (oname, k) in desc[1]:
                        val += k * env[oname]
                    val &= 0xff if field == 'array_depth' else 0xffffffff
                else:
                    raise AnalysisBroken('%s: value written to %s is not expressible over the loop-head state: %r' % (self.prop, field, desc))
                eff.append((lvl, field, val))
            elif field == '*':
                eff.append((lvl, '*', 0))
            elif field == 'current_name.bptr':
                if desc[0] == 'ptr':
                    eff.append((lvl, 'name', 1))          # a name span is recorded
                elif desc[0] == 'null' or desc == ('c', 0):
                    eff.append((lvl, 'name', 0))          # the recorded name is cleared
                else:
                    raise AnalysisBroken('%s: the name pointer written by a step is neither a span nor NULL: %r' % (self.prop, desc))
        cur = o['cursor']
        if cur == 'back' and o['cursor_by'][0] == 'c' and o['cursor_by'][1] == 0:
            cur = 'same'
        return (o['kind'], o.get('ret') if o['kind'] == 'ret' else o.get('sf'), o['ddepth'], o['cs_level'], cur, tuple(sorted(set(eff))),
                tuple(o.get('cbcalls', ())))

    def loop(self, doc, st, mode, lookup=False, want=None):
        """a call of the token loop -> ('ok', st', r) | ('err', ...)"""
        ti, depth, levels = st
        O = depth
        if max(depth - 1, 0) >= len(levels):
            return ('err', 'state', 'the current level lies outside the state array (depth %d)' % depth)
        AO = levels[max(depth - 1, 0)][1]
        for _ in range(len(doc[0]) + 4):
            r = self.step(doc, st, mode, O, AO, lookup, want)
            if r[0] == 'err':
                return r
            if r[0] == 'ret':
                return ('ok', r[1], r[2])
            st, mode = r[1], r[2]
        return ('err', 'loop', 'the token loop does not stop within tokens+4 iterations')

    def call(self, doc, st, api, want=None, wantname=None):
        """-> ('ok', st', ret) | ('err', what).  want(ti): sign of compare(name token ti, wanted name);
        wantname(ti): sign of compare(wanted name, name token ti)"""
        ti, depth, levels = st
        f, a, c, n = levels[max(depth - 1, 0)]
        paths = self.wrappers[api].get((f, c, depth == 0))
        need(paths is not None, '%s: no summary of %s for level flags 0x%x / type %d' % (self.prop, api, f, c))
        done = ()
        seen_post = {}          # loop call index -> (flags, current_type) of the machine's current level after that call
        while True:
            cands = [p for p in paths if p['calls'][:len(done)] == done and self.post_ok(p, seen_post)]
            need(cands, '%s: summary of %s has no path for the call history %r' % (self.prop, api, done))
            finals = [p for p in cands if len(p['calls']) == len(done)]
            if finals:
                rets = {p['ret'] for p in finals}
                need(len(rets) == 1 and len(finals) == len(cands), '%s: summary of %s is ambiguous after %r' % (self.prop, api, done))
                return ('ok', st, rets.pop())
            heads = {p['calls'][len(done)][:2] for p in cands}
            need(len(heads) == 1, '%s: summary of %s does different things after %r' % (self.prop, api, done))
            h = heads.pop()
            if h[0] == 'cmp':
                # the function itself compares names: (wanted name, name recorded at the current level)
                need(h[1] == ('local', 'level') and wantname is not None, '%s: %s makes an unexpected name comparison %r' % (self.prop, api, h[1]))
                nt = st[2][max(st[1] - 1, 0)][3]
                if nt is None:
                    return ('err', 'name', '%s compares with the current name although no name is recorded at this level' % api)
                sg = wantname(nt)
                if sg is None:
                    return ('err', 'name', '%s compares the wanted name with a name recorded for another object (the cursor left the object)' % api)
                done = done + (('cmp', h[1], sg),)
                continue
            mode, lookup = h
            need(mode is not None, '%s: %s calls the token loop with a non-constant mode' % (self.prop, api))
            need(not lookup or want is not None, '%s: %s passes a lookup name' % (self.prop, api))
            r = self.loop(doc, st, mode, lookup, want)
            if r[0] == 'err':
                return r
            st = r[1]
            done = done + ((mode, lookup, 1 if r[2] else 0, 0),)
            lvl = st[2][max(st[1] - 1, 0)]
            seen_post[sum(1 for c in done if c[0] != 'cmp') - 1] = {'flags': lvl[0], 'current_type': lvl[2]}

    @staticmethod
    def post_ok(p, seen_post):
        for (i, field, lo, hi, excl) in p.get('post', ()):
            v = seen_post.get(i)
            if v is None:
                continue
            x = v[field]
            if not (lo <= x <= hi) or x in excl:
                return False
        return True

# ---- 3c. the reference cursor -----------------------------------------------------------------------------------------
class Ref:
    """state: (stack of (node path, pos), fresh, phase); pos: -1 before first, len = at end"""

    @staticmethod
    def node(tree, path):
        n = tree
        for i in path:
            n = n[1][i]
        return n

    @staticmethod
    def initial():
        return ((), False, 'start')

    @staticmethod
    def moves(tree, rs, lookups=False):
        """protocol-following calls in state rs -> list of (api, expected ret, expected ddepth, expected type or None, rs')
        api ('field', r) is a lookup of a name of rank r: field i of the object has rank 2i+1, even ranks lie between"""
        stack, fresh, phase = rs
        out = []
        if phase == 'done':
            return out
        if phase == 'start':
            api = 'go_into_object' if tree[0] == 'object' else 'go_into_array'
            out.append((api, 1, 1 if tree[0] == 'object' else 0, None, (((), -1),), False, 'in'))
            return [(a, r, dd, t, (s, f, p)) for (a, r, dd, t, s, f, p) in out]
        path, pos = stack[-1]
        cont = Ref.node(tree, path)
        kids = cont[1]
        # next
        if pos + 1 < len(kids) and pos < len(kids):
            k = kids[pos + 1][0]
            out.append(('next', 1, 0, k, stack[:-1] + ((path, pos + 1),), True, 'in'))
        else:
            out.append(('next', 0, 0, None, stack[:-1] + ((path, len(kids)),), False, 'in'))
        # enter / raw on the element just returned
        if fresh and 0 <= pos < len(kids) and kids[pos][0] in ('object', 'array'):
            k = kids[pos][0]
            out.append(('go_into_' + k, 1, 1 if k == 'object' else 0, None, stack + ((path + (pos,), -1),), False, 'in'))
            out.append(('get_raw', 1, 0, None, stack, False, 'in'))
        # field lookup (inside an object): found iff a field with that name exists behind the cursor; a failed lookup passes
        # only fields with smaller names
        if lookups and cont[0] == 'object':
            n = len(kids)
            for r in range(0, 2 * n + 1):
                j = None
                for i in range(pos + 1, n):
                    if 2 * i + 1 >= r:
                        j = i
                        break
                if pos >= n:
                    j = None
                if j is not None and 2 * j + 1 == r:
                    out.append((('field', r), 1, 0, kids[j][0], stack[:-1] + ((path, j),), True, 'in'))
                elif j is not None:
                    out.append((('field', r), 0, 0, None, stack[:-1] + ((path, max(pos, j - 1)),), False, 'in'))
                else:
                    out.append((('field', r), 0, 0, None, stack[:-1] + ((path, n),), False, 'in'))
        # leave the innermost container
        api = 'leave_' + cont[0]
        if len(stack) == 1:
            out.append((api, 1, -1 if cont[0] == 'object' else 0, None, (), False, 'done'))
        else:
            out.append((api, 1, -1 if cont[0] == 'object' else 0, None, stack[:-1], False, 'in'))
        return [(a, r, dd, t, (s, f, p)) for (a, r, dd, t, s, f, p) in out]


# ---- exploration ------------------------------------------------------------------------------------------------------
def explore(M, tree, md, enums, report, lookups=False):
    spans = {}
    names = {}
    toks = tokens(tree, spans, names)
    offs = []
    o = 0
    for (_, raw) in toks:
        offs.append(o)
        o += len(raw)
    ptype = 1 if tree[0] == 'object' else 2
    doc = (toks, offs, o, ptype, md)
    depth0 = 0 if tree[0] == 'object' else 1
    ms0 = (0, depth0, tuple((0, 0, 0, None) for _ in range(md)))
    start = (ms0, Ref.initial())
    seen = {start: None}
    work = [start]
    edges = 0
    while work:
        cur = work.pop()
        ms, rs = cur
        for (api, eret, eddepth, etype, rs2) in Ref.moves(tree, rs, lookups):
            edges += 1
            if isinstance(api, tuple):
                rank = api[1]
                opath = rs[0][-1][0]

                def want(ti, rank=rank, opath=opath):
                    pth, i = names.get(ti, (None, None))
                    if pth != opath:
                        return 2          # no valid answer: the step then has no matching outcome and is reported
                    return (2 * i + 1 > rank) - (2 * i + 1 < rank)

                def wantname(ti, rank=rank, opath=opath):
                    pth, i = names.get(ti, (None, None))
                    need(pth is not None, '%s: the current name is not a name token' % M.prop)
                    if pth != opath:
                        return None
                    return (rank > 2 * i + 1) - (rank < 2 * i + 1)
                r = M.call(doc, ms, LOOKUP, want, wantname)
                api = 'field'
                desc = 'field(%s)' % ('name of field #%d' % (rank // 2) if rank % 2 else 'absent name sorting before field #%d' % (rank // 2))
            else:
                r = M.call(doc, ms, NAV[api])
                desc = api

            def trace():
                seq = []
                c = cur
                while seen.get(c) is not None:
                    c, a = seen[c]
                    seq.append(a)
                return list(reversed(seq)) + [desc]
            if r[0] == 'err':
                if isinstance(r[1], list):
                    report(False, 'error', api, 'an error is raised on a valid document: %s' % (r[2],), trace())
                else:
                    report(False, 'error', api, 'the call leaves the behaviour of a cursor over a valid document: %s' % (r[2],), trace())
                continue
            _, ms2, ret = r
            if ret != eret:
                report(False, 'result', api, 'returns %s, the reference cursor says %s' % (bool(ret), bool(eret)), trace())
                continue
            if ms2[1] - ms[1] != eddepth:
                report(False, 'depth', api, 'get_depth changes by %+d, the reference cursor says %+d' % (ms2[1] - ms[1], eddepth), trace())
                continue
            if api == 'get_raw':
                # the span get_raw hands back is [cursor before, cursor after): it must be BEGIN .. matching END
                path, pos = rs[0][-1]
                b_, e_ = spans[path + (pos,)]
                if (ms[0], ms2[0]) != (b_, e_ + 1):
                    report(False, 'position', api, 'the cursor moves from token %d to token %d, the container spans tokens %d..%d' % (ms[0], ms2[0], b_, e_), trace())
                    continue
            if etype is not None:
                ct = ms2[2][max(ms2[1] - 1, 0)][2]
                if ct != enums[KIND_ENUM[etype]]:
                    report(False, 'type', api, 'the element reported after next has type %d, the reference cursor is on a %s (%d)' % (ct, etype, enums[KIND_ENUM[etype]]), trace())
                    continue
            if rs2[2] == 'done':
                if ms2[0] != len(toks):
                    report(False, 'position', api, 'after leaving the root the cursor is at token %d of %d' % (ms2[0], len(toks)), trace())
                continue
            nxt = (ms2, rs2)
            if nxt not in seen:
                seen[nxt] = (cur, desc)
                work.append(nxt)
    return len(seen), edges


_G = {}


def _odepth(t, d=0):
    if t[0] == 'object':
        d += 1
    m = d
    if t[0] in ('object', 'array'):
        for c in t[1]:
            m = max(m, _odepth(c, d))
    return m


def _explore_part(k):
    M, enums, tier, jobs = _G['M'], _G['enums'], _G['tier'], _G['jobs']
    out = {'ndocs': 0, 'states': 0, 'edges': 0, 'bad': {}}
    bad = out['bad']
    i = 0
    try:
        for (n_nodes, depth, scalars) in _G['bounds']:
            for kind in ('object', 'array'):
                for tree in trees(n_nodes, depth, scalars, kind):
                    i += 1
                    if i % jobs != k:
                        continue
                    out['ndocs'] += 1
                    need_md = max(_odepth(tree) + (1 if kind == 'array' else 0), 1)    # an array parser starts at depth 1
                    for md in ((need_md, need_md + 1) if tier == 'thorough' else (need_md,)):
                        def report(ok, what, api, msg, seq, tree=tree, md=md):
                            key = (what, api)
                            if key not in bad or (len(seq), len(show(tree))) < (len(bad[key][3]), len(bad[key][1])):
                                bad[key] = (msg, show(tree), md, seq)
                        s, e = explore(M, tree, md, enums, report, _G.get('lookups', False))
                        out['states'] += s
                        out['edges'] += e
    except AnalysisBroken as e:
        return {'broken': str(e)}
    return out


def show(tree):
    k = tree[0]
    if k == 'object':
        return '{' + ','.join('%s:%s' % (chr(0x61 + i), show(c)) for i, c in enumerate(tree[1])) + '}'
    if k == 'array':
        return '[' + ','.join(show(c) for c in tree[1]) + ']'
    return k[:3]


def analyse(mod, tier, prop='C06', lookups=False, bounds=None):
    """extract the machine from `mod` and explore it -> (bad, coverage dict)"""
    lay = Layout(mod)
    table, modes, stats = c08.extract(mod, lookups=lookups, stubcmp=True)
    flags = stats['level_flags']
    C = Contracts(mod, LibHooks())
    enums = C._enums()
    for k, e in KIND_ENUM.items():
        need(e in enums, '%s: enumerator %s not found in the debug info' % (prop, e))
    tvals = sorted({v for n, v in enums.items() if n.startswith('BINSON_TYPE_')})
    need(len(tvals) >= 8, '%s: only %d binson_type enumerators found' % (prop, len(tvals)))
    wrappers = {}
    for api in list(NAV.values()) + ([LOOKUP] if lookups else []):
        wrappers[api] = wrapper_summary(mod, api, flags, tvals)
    cov = {'wrappers': {api: sorted({(tuple(c[0] for c in p['calls']), p['ret']) for ps in w.values() for p in ps}, key=repr)[:12]
                        for api, w in wrappers.items()}}
    M = Machine(table, wrappers, stepm.token_classes(), lay, enums)
    M.prop = prop
    if bounds is None:
        bounds = [(5, 3, ('integer', 'string')), (4, 3, ('integer', 'string', 'boolean', 'double', 'bytes'))] if tier == 'quick' else \
            [(6, 3, ('integer', 'string')), (5, 3, ('integer', 'string', 'boolean', 'double', 'bytes'))]
    jobs = min(16, os.cpu_count() or 4)
    _G.update(M=M, enums=enums, bounds=bounds, tier=tier, jobs=jobs, lookups=lookups)
    import multiprocessing as mp
    import sys
    sys.setrecursionlimit(20000)
    with mp.get_context('fork').Pool(jobs) as pool:
        parts = pool.map(_explore_part, range(jobs))
    ndocs = states = edges = 0
    bad = {}
    for p_ in parts:
        if 'broken' in p_:
            raise AnalysisBroken(p_['broken'])
        ndocs += p_['ndocs']
        states += p_['states']
        edges += p_['edges']
        for k, v in p_['bad'].items():
            if k not in bad or (len(v[3]), len(v[1]), v[1]) < (len(bad[k][3]), len(bad[k][1]), bad[k][1]):
                bad[k] = v
    need(ndocs >= 200, '%s: only %d documents explored' % (prop, ndocs))
    cov.update({'documents': ndocs, 'product_states': states, 'calls_compared': edges,
                'step_evaluations': stats['evaluations'], 'scan_modes': modes, 'level_flags': flags,
                'bound': ['all object and array documents with at most %d values below the root, nesting <= %d, scalar kinds %s' % (n, d, list(sc)) for (n, d, sc) in bounds],
                'max_depth_settings': 'exactly the nesting of the document' + (' and one more' if tier == 'thorough' else '')})
    return bad, cov


def run(rep, tier):
    with build.Scratch() as sc:
        lib, raws = sc.lib_ir('c06', defs=('BINSON_PARSER_WITH_PRINT',))
        mod = irload.load(lib)
        bad, cov = analyse(mod, tier)
        rep.coverage.update(cov)
        for api in NAV:
            for what in ('error', 'result', 'depth', 'type', 'position'):
                hit = bad.get((what, api))
                if hit is None:
                    rep.ob(True, 'cursor:%s:%s' % (api, what), '', sample={'call': api, 'compared': what})
                else:
                    msg, doc, md, seq = hit
                    rep.ob(False, 'cursor:%s:%s' % (api, what),
                           'C06 %s: %s - document %s (max_depth %d) after the calls %s' % (api, msg, doc, md, ' '.join(seq)),
                           'document: %s\ncall sequence: %s' % (doc, ' -> '.join(seq)))
    rep.coverage.update({
        'rule': 'product of the machine extracted from the code (step relation of the token loop + decision trees of next/go_into_*/leave_*/get_raw) '
                'with a reference cursor over the decoded tree: on every reachable product state every protocol-following call agrees on result, '
                'depth change, reported type after next, and raises no error; after leaving the root the cursor is at the end',
        'trusted_base': ['clang-14 IR', 'engine/absint*.py (step mode, stub calls)', 'props/stepm.py', 'props/c06.py (reference cursor, explorer)', 'spec/tokens.json'],
        'explanation': 'typestate-style exploration: the automaton is extracted from the source by abstract interpretation, the reference cursor is the '
                       'specification, the exploration is exhaustive over call sequences for each bounded document',
        'exhaustive': False,
    })
    rep.assumptions += ['bounded: documents larger than the bound are not explored; names and scalar values are not modelled (one representative per kind)',
                        'get_type is taken to return the current level\'s current_type (C03 decides the getters)',
                        'the span returned by get_raw is not compared (C11)']
