"""C01 - parser memory safety, by abstract interpretation of every public parser
function from the weakest state the API contract allows (DESIGN.md 4, C01)."""
from engine import build, irload, runner
from engine.contracts import API, LibHooks, check_exit, check_span_out
from engine.common import need, AnalysisBroken

PARSER_FNS = [f for f, k in API.items() if k[0] == 'P' and f != 'binson_parser_to_writer']
KINDS = ('MEM-R', 'MEM-W', 'REGION-W', 'INV-J', 'CALL-IND', 'EXTERN', 'FORMAT')
MIN_OBLIGATIONS = 100000
COMPACT = ('_process_one', '_advance_parsing')


def post(C, fname, label, outs, log):
    res = []
    for (st, ret) in outs:
        for (ok, kind, what) in check_exit(C, st, fname, ret) + check_span_out(C, st, fname, ret):
            rec = {'ok': ok, 'kind': kind, 'what': what, 'fn': fname}
            if not ok:
                rec['path'] = ['%s:%d:%s' % p if p[1] else p[2] for p in st.pathlist()][-14:]
            res.append(rec)
    return res


def collect(rep, results, cfgname, kinds=KINDS, prop='C01'):
    nstates = 0
    for r in results:
        nstates += r['stats']['states']
        for o in r['obs']:
            if o['kind'] not in kinds:
                continue
            site = '%s:%s:%s' % (o['fn'], o['kind'], o['what'].split(' in region')[0][:80])
            if o['ok']:
                rep.ob(True, site, '', sample={'kind': o['kind'], 'at': o['loc'], 'in': o['fn'], 'entry': '%s[%s]' % (r['fn'], r['label']),
                                               'discharged': o['what'][:160]})
            else:
                detail = 'entry function: %s  entry disjunct: %s  configuration: %s\ncall chain: %s\ninstruction: %s\nunproven: %s\n%s\npath (last decisions):\n  %s' % (
                    r['fn'], r['label'], cfgname, ' -> '.join(o.get('chain', [])), o['text'], o['what'], o.get('detail', ''),
                    '\n  '.join(o.get('path', [])))
                rep.ob(False, site, '%s %s unproven at %s in %s (entry %s[%s], %s): %s' % (
                    prop, o['kind'], o['loc'], o['fn'], r['fn'], r['label'], cfgname, o['what'][:140]), detail)
        for e in (r['extra'] if isinstance(r['extra'], list) else []):
            site = '%s:%s:%s' % (e['fn'], e['kind'], e['what'].split(' (')[0][:80])
            if e['ok']:
                rep.ob(True, site, '', sample={'kind': e['kind'], 'exit_of': '%s[%s]' % (r['fn'], r['label']), 'discharged': e['what'][:160]})
            else:
                rep.ob(False, site, '%s %s violated at an exit of %s [%s] (%s): %s' % (prop, e['kind'], r['fn'], r['label'], cfgname, e['what'][:160]),
                       'exit obligation: %s\npath (last decisions):\n  %s' % (e['what'], '\n  '.join(e.get('path', []))))
    return nstates


def analyse_config(rep, sc, tag, defs, target, fns=None):
    lib, _ = sc.lib_ir(tag, defs=defs, target=target)
    mod = irload.load(lib)
    pub = set(n for n, f in mod.functions.items() if f.linkage == 'external')
    for f in pub:
        need(f in API, 'public function %s has no contract row (engine/contracts.py)' % f)
    todo = [f for f in (fns or PARSER_FNS) if f in mod.functions]
    tasks = []
    for f in todo:
        for lb in runner.labels_for(mod, f):
            tasks.append((f, lb, {'compact': COMPACT, 'weight': runner.WEIGHT.get(f, 1)}))
    results = runner.run(mod, tasks, hooks_cls=LibHooks, post=post, tolerate=True)
    failed = [r for r in results if not r['ok']]
    # an entry whose analysis broke down (does not converge within the task budget, unmodelled construct) is no verdict; it
    # only stops the check when no other entry has found a violation
    rep.coverage.setdefault('entries_not_analysed', []).extend('%s[%s] %s: %s' % (r['fn'], r['label'], tag, r['error'][:160]) for r in failed)
    return mod, todo, [r for r in results if r['ok']]


def run(rep, tier):
    cfgs = [('print.lp64', ('BINSON_PARSER_WITH_PRINT',), None)]
    if tier == 'thorough':
        cfgs += [('noprint.lp64', (), None), ('print.ilp32', ('BINSON_PARSER_WITH_PRINT',), 'ilp32')]
    total_states = 0
    entries = []
    with build.Scratch() as sc:
        for (tag, defs, target) in cfgs:
            mod, todo, results = analyse_config(rep, sc, tag, defs, target)
            need(len(todo) >= (26 if 'noprint' not in tag else 24), 'C01: only %d public parser functions analysed in %s' % (len(todo), tag))
            total_states += collect(rep, results, tag)
            entries += ['%s[%s] %s: %d exits, %.0fs' % (r['fn'], r['label'], tag, r['exits'], r['wall']) for r in results]
            loops = {}
            for r in results:
                for (fn, head, info) in r['loops']:
                    loops.setdefault(fn, []).append(info['rounds'])
            rep.coverage.setdefault('loops', {})[tag] = {k: {'analyses': len(v), 'max_widening_rounds': max(v)} for k, v in loops.items()}
    skipped = rep.coverage.get('entries_not_analysed') or []
    if skipped:
        if not rep.violations:
            raise AnalysisBroken('C01: %d entries could not be analysed, first: %s' % (len(skipped), skipped[0]))
        print('NOTE C01: %d entries could not be analysed on this tree (%s); the violations found in the other entries stand' % (len(skipped), skipped[0][:200]))
        rep.assumptions.append('%d entries could not be analysed on this tree' % len(skipped))
    else:
        rep.coverage.pop('entries_not_analysed', None)
        need(rep.obligations >= MIN_OBLIGATIONS, 'C01: only %d obligations generated (expected >= %d)' % (rep.obligations, MIN_OBLIGATIONS))
    rep.coverage.update({
        'configurations': [c[0] for c in cfgs],
        'entries': entries,
        'states': total_states,
        'rule': 'every load/store/memset/memcmp/strlen/printf-read reachable from a public parser function stays inside its region; '
                'no store into the input buffer or caller strings; invariants A0/A1/J re-established at every exit; returned spans inside the buffer',
        'trusted_base': ['clang-14 -O0 IR + opt mem2reg,instsimplify', 'engine/irload.py', 'engine/absint*.py, absmem.py, lin.py (domain + entailment)',
                         'engine/contracts.py (entry contracts = API contract)', 'engine/externals.py (libc models)'],
        'explanation': 'abstract interpretation, context-sensitive and path-partitioned, loops closed by widening; every obligation discharged inside the domain',
    })
    rep.assumptions += [
        'distinct caller objects (parser struct, state array, input buffer, out-parameters) do not overlap and are as long as the contract says',
        'no C object is larger than PTRDIFF_MAX',
        'memcmp of 0 bytes touches nothing; snprintf/printf do not fail; %.*s with precision 0 reads nothing',
        'field lookups inside arrays are analysed too (the documented restriction is not needed for memory safety)',
    ]
