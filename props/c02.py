"""C02 - five structural clauses of "verify accepts exactly the well-formed documents":
(a) token table, (b) shortest form / length range, (c) nesting counters, (d) level wipe, (e) name ordering applied with the right polarity.
Language equivalence with the grammar is NOT decided."""
import json
import os

from engine import build, irload, runner
from engine.contracts import Contracts, LibHooks, Layout
from engine.absval import Int, Ptr, Zero
from engine.common import need, AnalysisBroken, VERIF
from props import tables as T

NS = {}          # kind -> next-state code of the decoder, filled from the code in run() (internal encoding)
ERR_RANGE, ERR_FORMAT = 1, 2


class NestHooks(LibHooks):
    """observes increments/decrements of the nesting counters and the error codes stored"""

    def on_store(self, st, r, off, size, val, ins):
        lay = self.lay
        S = st.store
        if r.name == 'P' and off.is_const() and isinstance(val, Int):
            do, dsz = lay.parser['depth']
            eo, esz = lay.parser['error_flags']
            if off.c == do and size == dsz:
                old = (st.cells('P') or {}).get(((do, ()), dsz))
                md = (st.cells('P') or {}).get(((lay.parser['max_depth'][0], ()), lay.parser['max_depth'][1]))
                if old is not None and isinstance(old[2], Int):
                    d = val.a.sub(old[2].a)
                    if d.is_const() and d.c == 1:
                        ok = md is not None and S.entails_ge0(md[2].a.sub(val.a)) and S.entails_ge0(val.a.neg().add(255))
                        self.log.append(('depth++', ins.loc(), ok, repr(old[2]), repr(val)))
                    elif d.is_const() and d.c == -1:
                        cs = (st.cells('P') or {}).get(((lay.parser['current_state'][0], ()), lay.ptr))
                        wiped = False
                        if cs is not None and isinstance(cs[2], Ptr):
                            z = (st.cells('STATE') or {}).get((cs[2].off.key(), lay.ssize))
                            wiped = z is not None and isinstance(z[2], Zero)
                        self.log.append(('depth--', ins.loc(), wiped, repr(cs[2]) if cs else None))
                    elif not (S.const_of(val.a) in (0, 1)):
                        self.log.append(('depth?', ins.loc(), False, repr(old[2]), repr(val)))
            if off.c == eo and size == esz:
                c = S.const_of(val.a)
                if c == 2 and ins.fn.name == '_advance_parsing' and st.tags.get('ordercmp') is not None and not st.tags.get('order_done'):
                    self.order_event(st, 'reject', ins)
                    st.tags.pop('ordercmp', None)
                dcell = (st.cells('P') or {}).get(((do, ()), dsz))
                md = (st.cells('P') or {}).get(((lay.parser['max_depth'][0], ()), lay.parser['max_depth'][1]))
                if c == self.E_OBJ:
                    ok = dcell is not None and md is not None and (S.entails_ge0(dcell[2].a.sub(md[2].a)) or S.entails_ge0(dcell[2].a.sub(255)))
                    self.log.append(('err-depth-object', ins.loc(), ok))
                elif c == self.E_ARR:
                    self.log.append(('err-depth-array', ins.loc(), bool(st.tags.get('ad_full'))))
        if r.name == 'STATE' and isinstance(val, Ptr) and val.region == 'BUF' and ins.fn.name == '_advance_parsing':
            ef0 = self.elem_field(off)
            if ef0 is not None and ef0[1] == lay.state['current_name'][0] + lay.bbuf['bptr'][0] and st.tags.get('ordercmp') is not None:
                self.order_event(st, 'accept', ins)
                st.tags.pop('ordercmp', None)
        if r.name == 'STATE' and isinstance(val, Int):
            ef = self.elem_field(off)
            if ef is not None and ef[1] == lay.state['array_depth'][0] and size == lay.state['array_depth'][1]:
                old = (st.cells('STATE') or {}).get((off.key(), size))
                if old is not None and isinstance(old[2], Int):
                    d = val.a.sub(old[2].a)
                    if d.is_const() and d.c == 1:
                        self.log.append(('array_depth++', ins.loc(), S.entails_ge0(val.a.neg().add(255)), repr(old[2]), repr(val)))
                    elif not d.is_const() or d.c not in (-1, 0):
                        if S.const_of(val.a) != 0:
                            self.log.append(('array_depth?', ins.loc(), False, repr(old[2]), repr(val)))
        LibHooks.on_store(self, st, r, off, size, val, ins)

    def on_load(self, st, r, off, size, ins):
        pass

    # ---- (e) ordering polarity: the previous name of the level is compared with the new one, FORMAT iff not smaller
    def on_call(self, st, name, args, ins):
        if name == '_cmp_name' and len(args) == 2:
            a, b = args
            prev_vs_new = isinstance(a, Ptr) and a.region == 'STATE' and isinstance(b, Ptr) and b.region.startswith('L')
            st.tags['cmpargs'] = prev_vs_new

    def on_return(self, st, fn, ret):
        if fn.name == '_cmp_name':
            if st.tags.pop('cmpargs', False):
                st.tags['ordercmp'] = ret

    def at_backedge(self, st, fn, head):
        LibHooks.at_backedge(self, st, fn, head)
        st.tags.pop('ordercmp', None)

    def order_event(self, st, what, ins):
        ret = st.tags.get('ordercmp')
        if not isinstance(ret, Int):
            return
        S = st.store
        if not all(z in S.ivl for z in ret.a.t):
            return
        neg = S.entails_ge0(ret.a.sub(1 << 31))
        nonneg = S.entails_ge0(ret.a.neg().add((1 << 31) - 1))
        self.log.append(('order', what, ins.loc(), neg, nonneg))


def post(C, fname, label, outs, log):
    return [x for x in log if x[0] in ('depth++', 'depth--', 'depth?', 'array_depth++', 'array_depth?', 'err-depth-object', 'err-depth-array', 'order')]


def setup(C):
    C.hooks.E_OBJ = C.enums.get('BINSON_ERROR_MAX_DEPTH_OBJECT', 8)
    C.hooks.E_ARR = C.enums.get('BINSON_ERROR_MAX_DEPTH_ARRAY', 9)


def run(rep, tier):
    sp = json.load(open(os.path.join(VERIF, 'spec', 'tokens.json')))
    with build.Scratch() as sc:
        lib, raws = sc.lib_ir('c02')
        mod = irload.load(lib)
        C = Contracts(mod, LibHooks())
        lay = C.lay
        # ---------- (a) token table
        tab = T.decoder_process_one(C, mod)
        kinds_, errcode_ = T.next_state_kinds(mod, tab)
        NS.clear()
        NS.update({k: v for v, k in kinds_.items()})
        NS['error'] = errcode_
        enums_ = C._enums()
        global ERR_RANGE, ERR_FORMAT
        ERR_RANGE, ERR_FORMAT = enums_['BINSON_ERROR_RANGE'], enums_['BINSON_ERROR_FORMAT']
        for b in range(256):
            key = '0x%02x' % b
            s = sp['tokens'].get(key)
            rows = tab[b]
            succ = {r for r in rows if r[0] != NS['error']}
            if s is None or s['kind'] in ('object_begin', 'object_end', 'array_begin', 'array_end'):
                # not a value token for _process_one: every path must end in the error state with FORMAT
                ok = not succ and all(r[3] == ERR_FORMAT for r in rows)
                rep.ob(ok, '_process_one:TOKEN:%s' % key, 'C02(a) byte %s is not a value token but _process_one can decode it: %s' % (key, sorted(succ, key=repr)), '',
                       sample={'byte': key, 'decodes_as': 'FORMAT error'} if b in (0x17, 0x1b, 0x47, 0x00) else None)
                continue
            want_ns = NS[s['kind']]
            oks = bool(succ) and all(r[0] == want_ns and r[3] == 0 and r[4] == 'cursor+=consumed' for r in succ)
            if s['kind'] in ('string', 'bytes'):
                oks = oks and all(r[1] == ('var', 1 + s['width']) for r in succ)
                acc = T.inter_set(T.norm_set([r[2] for r in succ if r[2]]), T.representable(s['width']))
                want = T.inter_set(T.shortest_form(s['width']), [(0, sp['length_max'])])
                oks = oks and acc == want
            else:
                oks = oks and all(r[1] == ('const', 1 + s['width']) for r in succ)
            fails = {r for r in rows if r[0] == NS['error']}
            okf = all(r[3] in (ERR_RANGE, ERR_FORMAT) for r in fails)
            rep.ob(oks and okf, '_process_one:TOKEN:%s' % key,
                   'C02(a) byte %s (%s, width %d) is decoded as %s' % (key, s['kind'], s['width'], sorted(rows, key=repr)), '',
                   sample={'byte': key, 'kind': s['kind'], 'consumes': '1+%d%s' % (s['width'], '+L' if s['kind'] in ('string', 'bytes') else '')})
        # the four structural tokens are dispatched by the first switch of the token loop
        adv = mod.functions['_advance_parsing']
        sw = [i for i in adv.instructions() if i.op == 'switch']
        need(sw, 'C02: no switch in _advance_parsing')
        first = sw[0]
        rep.ob({k for (k, lb) in first.attrs['cases']} == {0x40, 0x41, 0x42, 0x43}, '_advance_parsing:TOKEN:structural',
               'C02(a) the token loop dispatches %s as structural tokens, the grammar says 0x40..0x43' % sorted(hex(k) for (k, lb) in first.attrs['cases']), '',
               sample={'structural_tokens': ['0x40', '0x41', '0x42', '0x43']})
        # ---------- (b) shortest form of integers
        pi = T.decoder_parse_integer(C, mod)
        for w in (1, 2, 4, 8):
            acc = T.inter_set(pi[w]['accepted'], T.representable(w))
            want = T.shortest_form(w)
            rep.ob(acc == want, '_parse_integer:SHORTEST:%d' % w,
                   'C02(b) a %d-byte integer is accepted for values %s, shortest form requires %s' % (w, [(hex(a), hex(b)) for a, b in acc], [(hex(a), hex(b)) for a, b in want]), '',
                   sample={'width': w, 'accepted': [[hex(a), hex(b)] for a, b in acc]})
            rej = T.inter_set(pi[w]['rejected'], want)
            # nothing in the shortest-form set may be rejectable on a path that also could accept: rejected set must not be
            # forced for shortest-form values (the abstract value is unconstrained, so rejected covers the complement only)
        # ---------- (c) nesting counters and (d) level wipe: observed during the token loop in the contexts that move them
        tasks = []
        for f in ('binson_parser_verify', 'binson_parser_next', 'binson_parser_go_into_object', 'binson_parser_go_into_array',
                  'binson_parser_leave_object', 'binson_parser_leave_array'):
            for lb in ('ok-d0', 'ok-d1'):
                tasks.append((f, lb, {'compact': ('_process_one', '_advance_parsing'), 'setup': setup, 'weight': runner.WEIGHT.get(f, 1)}))
        results = runner.run(mod, tasks, hooks_cls=NestHooks, post=post)
        cnt = {}
        for r in results:
            for e in r['extra']:
                cnt[e[0]] = cnt.get(e[0], 0) + 1
                ctx = '%s[%s]' % (r['fn'], r['label'])
                if e[0] == 'depth++':
                    rep.ob(e[2], '_advance_parsing:NEST:depth', 'C02(c) depth is incremented at %s without a guard that keeps it <= max_depth and <= 255 (%s -> %s, %s)' % (e[1], e[3], e[4], ctx), '',
                           sample={'increment': e[1], 'guarded': True})
                elif e[0] == 'array_depth++':
                    rep.ob(e[2], '_advance_parsing:NEST:array_depth', 'C02(c) array_depth is incremented at %s without a guard that keeps it <= 255 (%s -> %s, %s)' % (e[1], e[3], e[4], ctx), '',
                           sample={'increment': e[1], 'guarded': True})
                elif e[0] in ('depth?', 'array_depth?'):
                    rep.ob(False, '_advance_parsing:NEST:%s' % e[0], 'C02(c) a nesting counter is changed by something other than +-1/reset at %s (%s -> %s, %s)' % (e[1], e[3], e[4], ctx), '')
                elif e[0] == 'depth--':
                    rep.ob(e[2], '_advance_parsing:WIPE', 'C02(d) the object level being left at %s is not zeroed in full before depth is decremented (current_state %s, %s)' % (e[1], e[3], ctx), '',
                           sample={'leave_at': e[1], 'level_wiped_before': True})
                elif e[0] == 'order':
                    _, what, loc, neg, nonneg = e
                    if what == 'reject':
                        rep.ob(nonneg, '_advance_parsing:ORDER:reject',
                               'C02(e) a field is rejected for its name order at %s although the comparison with the previous name is not known to be >= 0 (%s)' % (loc, ctx), '',
                               sample={'ordering': 'FORMAT only if cmp(previous name, new name) >= 0', 'at': loc})
                    else:
                        rep.ob(neg, '_advance_parsing:ORDER:accept',
                               'C02(e) a new field name is recorded at %s although the comparison with the previous name is not known to be < 0 (%s)' % (loc, ctx), '',
                               sample={'ordering': 'name accepted only if cmp(previous name, new name) < 0', 'at': loc})
                elif e[0] == 'err-depth-object':
                    rep.ob(e[2], '_advance_parsing:NEST:errcode', 'C02(c) MAX_DEPTH_OBJECT is stored at %s although the depth limit is not reached (%s)' % (e[1], ctx), '',
                           sample={'error_code': 'MAX_DEPTH_OBJECT', 'stored_at': e[1]})
        for k in ('depth++', 'depth--', 'array_depth++', 'err-depth-object', 'order'):
            need(cnt.get(k, 0) >= 1, 'C02: no %s event observed' % k)
        # the array-depth error constant is stored at all and only under its guard: resolved-IR rule
        e_arr = C.enums.get('BINSON_ERROR_MAX_DEPTH_ARRAY', 9)
        pidx = [n for n, _ in sorted(lay.parser.items(), key=lambda kv: kv[1][0])].index('error_flags')
        from engine import flow
        sites = [i for i in adv.instructions() if i.op == 'store' and i.ops[0][1] == ('int', e_arr) and
                 flow.mem_key(adv, i.ops[1][1]) == ('field', 'struct.binson_parser_s', pidx)]
        rep.ob(len(sites) >= 1, '_advance_parsing:NEST:errcode-array', 'C02(c) no path stores MAX_DEPTH_ARRAY', '', sample={'error_code': 'MAX_DEPTH_ARRAY', 'stores': len(sites)})
        # the comparison itself satisfies its specification relative to memcmp (full length, bytewise, tie-break by length)
        from props.c07 import cmp_spec
        rep.coverage['cmp_outcomes'] = cmp_spec(rep, mod, 'C02(e)')
        rep.coverage['events'] = cnt
        rep.coverage['decoder_integer_table'] = {str(w): [[hex(a), hex(b)] for a, b in T.inter_set(pi[w]['accepted'], T.representable(w))] for w in pi}
        # ---------- (f) verify's verdict on bounded token sequences (extracted machine vs grammar recogniser)
        from props import c02m
        lib2, _ = sc.lib_ir('c02m', defs=('BINSON_PARSER_WITH_PRINT',))
        try:
            c02m.lang_clause(rep, irload.load(lib2), tier)
        except AnalysisBroken as e:
            # clause (f) could not be evaluated; violations of the other clauses found above still stand as a verdict
            if not rep.violations:
                raise
            rep.assumptions.append('clause (f) not evaluated on this tree: %s' % e)
            print('NOTE C02(f) not evaluated: %s' % e)
    rep.coverage.update({
        'rule': '(a) per first byte 0x00..0xff: kind, bytes consumed and error of the decoder equal the grammar table; (b) accepted integer/length sets '
                'per width equal the shortest-form sets; (c) counters incremented only under their limit guards, depth errors only at the limit; (d) level zeroed before leaving; '
                '(e) ordering rule and functional specification of the name comparison; (f) verdict of the extracted verify machine == grammar recogniser on every token sequence up to the bound',
        'trusted_base': ['clang-14 IR', 'engine/absint*.py', 'spec/tokens.json'],
        'explanation': 'four necessary conditions of the accepted language, each visible in the code; NOT language equivalence',
        'exhaustive': True,
    })
    rep.assumptions += ['acceptance as a whole (ordering, alternation, END matching, trailing bytes, depth limit and its error code) is decided for token sequences up to the stated '
                        'bound only, with token-internal well-formedness delegated to clauses (a) and (b); NOT decided beyond the bound']
