"""C09 - errors latch.  Every advancing call entered with an error latched (and
everything else about the object unconstrained) returns false, getters return
their neutral value, the flag stays set; no store outside the documented
clearing points writes NONE; a failing writer stores nothing and keeps counting."""
import re

from engine import build, irload, runner, flow
from engine.contracts import API, LibHooks, Layout
from engine.absval import Int, Ptr, Null, Top
from engine.common import need
from props.c04 import WHooks

ADVANCING = ['binson_parser_next', 'binson_parser_next_ensure', 'binson_parser_field', 'binson_parser_field_with_length',
             'binson_parser_field_ensure', 'binson_parser_field_ensure_with_length', 'binson_parser_go_into_object',
             'binson_parser_go_into_array', 'binson_parser_leave_object', 'binson_parser_leave_array', 'binson_parser_get_raw']
GETTERS = {'binson_parser_get_type': 'zero', 'binson_parser_get_name': 'null', 'binson_parser_get_string_bbuf': 'null',
           'binson_parser_get_bytes_bbuf': 'null', 'binson_parser_get_integer': 'zero', 'binson_parser_get_boolean': 'zero',
           'binson_parser_get_double': 'fzero', 'binson_parser_string_equals': 'zero'}
PARSER_CLEARING = ('binson_parser_reset', '_binson_parser_init')
WRITES = ['binson_write_string', 'binson_write_string_with_len', 'binson_write_object_begin', 'binson_write_object_end',
          'binson_write_array_begin', 'binson_write_array_end', 'binson_write_boolean', 'binson_write_integer',
          'binson_write_double', 'binson_write_bytes', 'binson_write_raw', 'binson_parser_to_writer']


def norm(s):
    return re.sub(r'#[0-9]+', '', s or '')


def post(C, fname, label, outs, log):
    lay = C.lay
    res = {'exits': [], 'wbuf_writes': sorted({x[1] for x in log if x[0] == 'wbuf-write'}),
           'wcount': [tuple(x[1:]) for x in log if x[0] == 'wcount']}
    for (st, ret) in outs:
        S = st.store
        e = {'path': ['%s:%d:%s' % p if p[1] else p[2] for p in st.pathlist()][-8:]}
        if isinstance(ret, Int):
            e['ret'] = ('int', S.const_of(ret.a))
        elif isinstance(ret, Null):
            e['ret'] = ('null',)
        elif isinstance(ret, Top) and ret.kind in ('float', 'double'):
            try:
                e['ret'] = ('float', float(ret.why) if not ret.why.startswith('0x') else None)
            except ValueError:
                e['ret'] = ('float', None)
        else:
            e['ret'] = ('other', repr(ret))
        if 'P' in st.regions:
            o, sz = lay.parser['error_flags']
            c = (st.cells('P') or {}).get(((o, ()), sz))
            e['perr_set'] = bool(c is not None and isinstance(c[2], Int) and S.entails_ge0(c[2].a.sub(1)))
        if 'W' in st.regions and lay.writer:
            o, sz = lay.writer['error_flags']
            c = (st.cells('W') or {}).get(((o, ()), sz))
            e['werr_set'] = bool(c is not None and isinstance(c[2], Int) and S.entails_ge0(c[2].a.sub(1)))
            o, sz = lay.writer['buffer_used']
            c = (st.cells('W') or {}).get(((o, ()), sz))
            cv = c[2] if c is not None else None
            if isinstance(cv, Int):
                sg = cv.a.single()
                info = st.syminfo.get(sg[0]) if sg and sg[1] == 1 and cv.a.c == 0 else None
                if info is not None and info.defn and info.defn[0] == 'addw':
                    # modular sum whose overflow could not be excluded (the counter is unconstrained here): compare by definition
                    cv = Int(cv.w, info.defn[1].add(info.defn[2]))
            e['counter'] = norm(repr(cv)) if cv is not None else None
        res['exits'].append(e)
    return res


def neutral(kind, ret):
    if kind == 'zero':
        return ret == ('int', 0)
    if kind == 'null':
        return ret == ('null',)
    if kind == 'fzero':
        return ret[0] == 'float' and ret[1] == 0.0
    return False


def run(rep, tier):
    cfgs = [('print.lp64', ('BINSON_PARSER_WITH_PRINT',), None)]
    if tier == 'thorough':
        cfgs += [('print.ilp32', ('BINSON_PARSER_WITH_PRINT',), 'ilp32')]
    with build.Scratch() as sc:
        for (tag, defs, target) in cfgs:
            lib, raws = sc.lib_ir(tag, defs=defs, target=target)
            mod = irload.load(lib)
            lay = Layout(mod)
            # ---- parser: error disjunct
            tasks = []
            for f in ADVANCING + list(GETTERS):
                need(f in mod.functions, 'C09: anchor function %s not found' % f)
                tasks.append((f, 'err', {'compact': ('_process_one', '_advance_parsing')}))
            results = runner.run(mod, tasks, hooks_cls=LibHooks, post=post)
            for r in results:
                need(r['extra']['exits'], 'C09: %s has no exit from the error disjunct' % r['fn'])
                for e in r['extra']['exits']:
                    want = GETTERS.get(r['fn'], 'zero')
                    rep.ob(neutral(want, e['ret']), '%s:LATCH-RET' % r['fn'],
                           'C09 %s can return %r although an error is latched (%s)' % (r['fn'], e['ret'], tag),
                           'entry: error_flags != NONE, everything else unconstrained\npath:\n  ' + '\n  '.join(e['path']),
                           sample={'fn': r['fn'], 'entry': 'error latched', 'ret': list(e['ret']), 'neutral': want})
                    rep.ob(e.get('perr_set', False), '%s:LATCH-FLAG' % r['fn'],
                           'C09 %s can leave with the error flag cleared or unknown although it was set on entry (%s)' % (r['fn'], tag),
                           'path:\n  ' + '\n  '.join(e['path']))
            # ---- parser: no store of NONE outside the clearing points (resolved IR rule)
            fidx = [n for n, _ in sorted(lay.parser.items(), key=lambda kv: kv[1][0])].index('error_flags')
            nst = 0
            for fn in mod.functions.values():
                for ins in fn.instructions():
                    if ins.op == 'store' and flow.mem_key(fn, ins.ops[1][1]) == ('field', 'struct.binson_parser_s', fidx):
                        if fn.name in PARSER_CLEARING:
                            continue
                        nst += 1
                        v = ins.ops[0][1]
                        rep.ob(v[0] == 'int' and v[1] != 0, '%s:LATCH-STORE' % fn.name,
                               'C09 store to parser->error_flags at %s in %s may write NONE (operand %r)' % (ins.loc(), fn.name, v),
                               'rule: outside binson_parser_reset/_binson_parser_init every store to error_flags stores a non-zero constant',
                               sample={'store': ins.loc(), 'fn': fn.name, 'value': v[1] if v[0] == 'int' else None})
            need(nst >= 15, 'C09: only %d stores to parser->error_flags found' % nst)
            # ---- writer
            wtasks = []
            for f in WRITES:
                need(f in mod.functions, 'C09: anchor function %s not found' % f)
                for lb in runner.labels_for(mod, f):
                    if f == 'binson_parser_to_writer' and not lb.startswith('ok-d'):
                        if lb != 'err+wok':
                            continue
                    wtasks.append((f, lb, {'compact': ('_process_one', '_advance_parsing'), 'weight': runner.WEIGHT.get(f, 1)}))
            wres = runner.run(mod, wtasks, hooks_cls=WHooks, post=post)
            okforms = {}
            for r in wres:
                if r['label'].endswith('wok'):
                    # counter forms of the successful paths of the error-free disjunct are the reference
                    okforms.setdefault(r['fn'], set()).update(e['counter'] for e in r['extra']['exits'] if e['ret'] == ('int', 1))
            for r in wres:
                if r['label'] == 'err+wok':
                    for e in r['extra']['exits']:
                        rep.ob(e['ret'] == ('int', 0), '%s:LATCH-RET' % r['fn'], 'C09 %s returns %r with a parser error latched' % (r['fn'], e['ret']), '')
                        rep.ob(not r['extra']['wbuf_writes'], '%s:LATCH-WBUF' % r['fn'], 'C09 %s writes output with a parser error latched' % r['fn'], '')
                    continue
                if not r['label'].endswith('werr'):
                    continue
                rep.ob(not r['extra']['wbuf_writes'], '%s:LATCH-WBUF' % r['fn'],
                       'C09 %s stores into the output buffer although a writer error is latched (sites %s, %s)' % (r['fn'], r['extra']['wbuf_writes'], tag),
                       'entry: writer->error_flags != NONE, counter and capacity unconstrained',
                       sample={'fn': r['fn'], 'entry': r['label'], 'stores_into_output': 0})
                for e in r['extra']['exits']:
                    rep.ob(e['ret'] == ('int', 0), '%s:LATCH-RET' % r['fn'],
                           'C09 %s can return %r although a writer error is latched (%s)' % (r['fn'], e['ret'], tag), 'path:\n  ' + '\n  '.join(e['path']))
                    rep.ob(e.get('werr_set', False), '%s:LATCH-FLAG' % r['fn'],
                           'C09 %s can leave with the writer error flag cleared (%s)' % (r['fn'], tag), 'path:\n  ' + '\n  '.join(e['path']))
                nw = 0
                for (ok, loc, before, bsize, after, wl) in r['extra']['wcount']:
                    nw += 1
                    rep.ob(ok, '_write:LATCH-COUNT', 'C09 counter after a failed write: _write called at %s from %s [%s] leaves the counter at %s instead of %s + %s (%s)' % (
                        loc, r['fn'], r['label'], after, before, bsize, tag),
                        'the counter must keep counting exactly as in the error-free case: every _write adds data->bsize whatever the error state',
                        sample={'fn': r['fn'], 'entry': r['label'], '_write_at': loc, 'counter_before': before, 'added': bsize, 'counter_after': after})
                if nw == 0 and r['fn'] != 'binson_parser_to_writer':
                    # the function reaches no _write at all with an error latched: if it does in the error-free disjunct, the
                    # counter stops counting after a failure (a violation, not a vacuous run)
                    okcalls = sum(len(x['extra']['wcount']) for x in wres if x['fn'] == r['fn'] and x['label'].endswith('wok'))
                    need(okcalls >= 1, 'C09: no _write call observed in %s [%s]' % (r['fn'], r['label']))
                    rep.ob(False, '%s:LATCH-COUNT' % r['fn'],
                           'C09 %s reaches no _write with a writer error latched although it does without one: the counter stops counting after a '
                           'failed write (%s)' % (r['fn'], tag), 'entry: %s' % r['label'])
            # whether _write is called at all must not depend on the error state: the taint clause of C04 (control dependence)
            from props.c04 import taint_clause
            wmod = irload.load([x for x in raws if 'binson_writer' in x][0])
            rep.coverage['taint'] = taint_clause(rep, wmod)
            rep.coverage.setdefault('entries', []).extend('%s[%s] %s' % (r['fn'], r['label'], tag) for r in results + wres)
    rep.coverage.update({
        'rule': 'abstract interpretation from the disjunct error_flags != NONE with every other field unconstrained; plus resolved-IR rule on stores to error_flags',
        'trusted_base': ['clang-14 IR', 'engine/absint*.py', 'engine/contracts.py'],
        'explanation': 'latching decided for all ways of reaching an error state because nothing but the flag is assumed on entry',
    })
    rep.assumptions += ['reset, init_*, verify, print, to_string (parser) and writer_init/reset are the documented clearing points and are excluded by name',
                        'binson_parser_get_depth is not a value getter and is excluded']
