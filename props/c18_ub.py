"""C18 clause (b): no reliance on arithmetic undefined behaviour that is still visible in the IR: every `nsw`
add/sub/mul cannot wrap, every shift amount is below the operand width, divisors are non-zero, and the size_t -> int
conversions feeding %.*s precisions preserve the value.  Obligations are discharged by the abstract interpreter."""
from engine import build, irload, runner
from engine.contracts import API, LibHooks
from engine.common import need

KINDS = ('UB-NSW', 'UB-SHIFT', 'UB-DIV', 'UB-TRUNC')


def ub_clause(rep, tier):
    cfgs = [('print.lp64', ('BINSON_PARSER_WITH_PRINT',), None)]
    if tier == 'thorough':
        cfgs += [('print.ilp32', ('BINSON_PARSER_WITH_PRINT',), 'ilp32')]
    out = {}
    with build.Scratch() as sc:
        for (tag, defs, target) in cfgs:
            lib, raws = sc.lib_ir(tag, defs=defs, target=target)
            mod = irload.load(lib)
            tasks = []
            for f in API:
                if f not in mod.functions or f == 'binson_writer_verify':
                    continue
                for lb in runner.labels_for(mod, f):
                    # UB obligations are about arithmetic on the paths that do work: the no-error disjuncts
                    if lb.startswith('err') or lb.endswith('werr') or lb.endswith('nulltext') or lb.startswith('ok-d0'):
                        continue
                    tasks.append((f, lb, {'compact': ('_process_one', '_advance_parsing'), 'weight': runner.WEIGHT.get(f, 1)}))
            results = runner.run(mod, tasks, hooks_cls=LibHooks, post=None)
            sites = {}
            for r in results:
                for o in r['obs']:
                    if o['kind'] not in KINDS:
                        continue
                    key = (o['kind'], o['loc'], o['fn'])
                    sites.setdefault(key, [0, 0])
                    sites[key][0 if o['ok'] else 1] += 1
                    if o['ok']:
                        rep.ob(True, '%s:%s' % (o['fn'], o['kind']), '', sample={'kind': o['kind'], 'at': o['loc'], 'in': o['fn'], 'discharged': o['what']})
                    else:
                        rep.ob(False, '%s:%s:%s' % (o['fn'], o['kind'], o['what'][:50]),
                               'C18 %s unproven at %s in %s (entry %s[%s], %s): %s' % (o['kind'], o['loc'], o['fn'], r['fn'], r['label'], tag, o['what']),
                               'the meaning of this construct is undefined in C when the obligation fails, so it may differ between compilers and flags\n'
                               'instruction: %s\npath:\n  %s' % (o['text'], '\n  '.join(o.get('path', []))))
            need(len(sites) >= 5, 'C18: only %d UB-relevant instruction sites found' % len(sites))
            out[tag] = {'%s %s' % (k[0], k[1]): v[0] for k, v in sorted(sites.items())}
    return {'ub_sites': out}
