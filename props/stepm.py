"""stepm - the token loop of _advance_parsing as an extracted step relation.

One iteration of the loop is evaluated abstractly from a generic loop-head state: the scan mode (scan_flags) and the
flags of the current level are concrete constants taken from the IR, the token class is fixed by constraining the byte
under the cursor, everything else (depth, depth at call entry, array depth, array depth at call entry, cursor, buffer
size, max_depth, parser type, current type, previous name, buffer contents) is symbolic.  The evaluation stops at the
back edge (engine step mode).  Every path through the iteration becomes one outcome record: error code, cursor
movement, depth change, the cells of the state array that were written, the next scan mode, the decision signature
and the path condition restricted to the loop-head symbols.  Used by C08 (mode independence) and C06 (cursor model)."""
import json
import multiprocessing as mp
import os
import sys
import time
import traceback

from engine import flow
from engine.contracts import Contracts, LibHooks, Layout
from engine.absval import Int, Ptr, Null, Top, Region, Zero, NULL, Fn
from engine.lin import Aff, Store, fm_infeasible
from engine.common import need, AnalysisBroken

STEP_FN = '_advance_parsing'
CMP_FN = '_cmp_name'
INTFORM_FN = '_parse_integer'
CB_STUB = 'verif_token_callback_stub'


def cmp_stub(st, args):
    """summary of _cmp_name(a, b) used as an oracle: the sign of the result is left open (three forks) and recorded together
    with what the two operands are (a name stored in the state array / a local bbuf / the name being looked up)"""
    def kind(a):
        if isinstance(a, Ptr):
            if a.region == 'STATE':
                return 'level'
            if a.region == 'SN':
                return 'wanted'
            if a.region.startswith('L'):
                return 'local'
            return a.region
        return '?'
    kinds = (kind(args[0]), kind(args[1]))
    out = []
    for sign in (-1, 0, 1):
        s = st.copy()
        s.tags['cmps'] = s.tags.get('cmps', ()) + ((kinds, sign),)
        if 'calls' in s.tags or s.tags.get('record_cmp_in_calls'):
            s.tags['calls'] = s.tags.get('calls', ()) + (('cmp', kinds, sign),)
        if sign == 0:
            v = Int(32, Aff(0))
        elif sign > 0:
            v = s.fresh_int('cmp:pos', 32, 1, (1 << 31) - 1)
        else:
            v = s.fresh_int('cmp:neg', 32, 1 << 31, (1 << 32) - 1)
        out.append((s, v))
    return out
SPEC = os.path.join(os.path.dirname(os.path.dirname(os.path.abspath(__file__))), 'spec', 'tokens.json')


def token_classes():
    """token classes of the Binson grammar by first byte: name -> list of (lo, hi) byte ranges"""
    spec = json.load(open(SPEC))
    cls = {}
    used = set()
    for k, v in spec['tokens'].items():
        b = int(k, 16)
        used.add(b)
        cls.setdefault(v['kind'], []).append(b)
    out = {}
    for kind, bs in cls.items():
        bs.sort()
        rs = []
        for b in bs:
            if rs and rs[-1][1] == b - 1:
                rs[-1] = (rs[-1][0], b)
            else:
                rs.append((b, b))
        for i, r in enumerate(rs):
            out[kind if len(rs) == 1 else '%s.%d' % (kind, i)] = r
    # bytes that are no token at all
    rs = []
    for b in range(256):
        if b in used:
            continue
        if rs and rs[-1][1] == b - 1:
            rs[-1] = (rs[-1][0], b)
        else:
            rs.append((b, b))
    for i, r in enumerate(rs):
        out['invalid.%d' % i] = r
    return out


def level_flag_constants(mod, lay):
    """every constant the library stores into binson_state.flags (+ 0 from the wipes): the level-state alphabet"""
    fi = None
    f = mod.di_struct_fields('binson_state_s')
    need(f, 'stepm: no debug info for the state struct')
    names = [n for (n, o, s) in sorted(f, key=lambda x: x[1])]
    need('flags' in names, 'stepm: state struct has no field flags')
    fi = names.index('flags')
    vals = {0}
    nst = 0
    for fn in mod.functions.values():
        for ins in fn.instructions():
            if ins.op != 'store':
                continue
            k = flow.mem_key(fn, ins.ops[1][1])
            if k[0] == 'field' and 'binson_state' in k[1] and k[2] == fi:
                nst += 1
                v = ins.ops[0][1]
                if isinstance(v, tuple) and v[0] == 'int':
                    vals.add(v[1] & 0xffff)
                else:
                    raise AnalysisBroken('stepm: non-constant store to binson_state.flags at %s' % ins.loc())
    need(nst >= 6, 'stepm: only %d stores to binson_state.flags found' % nst)
    return sorted(vals)


def mode_constants(mod):
    """scan-mode constants the public API passes down to the token loop (through the static wrapper _advance)"""
    target = mod.functions.get(STEP_FN)
    need(target is not None, 'stepm: %s not found' % STEP_FN)
    vals = set()
    sites = 0

    def collect(fname, argi, depth=0):
        nonlocal sites
        for fn in mod.functions.values():
            for ins in fn.instructions():
                if ins.op == 'call' and flow.callee_name(ins) == fname:
                    sites += 1
                    args = ins.ops
                    need(argi < len(args), 'stepm: call of %s at %s has no argument %d' % (fname, ins.loc(), argi))
                    a = args[argi][1]
                    if isinstance(a, tuple) and a[0] == 'int':
                        vals.add(a[1] & 0xff)
                    elif isinstance(a, tuple) and a[0] == 'local' and depth < 3:
                        pn = [p[1] for p in fn.params]
                        need(a[1] in pn, 'stepm: scan mode at %s is neither a constant nor a parameter' % ins.loc())
                        collect(fn.name, pn.index(a[1]), depth + 1)
                    else:
                        raise AnalysisBroken('stepm: scan mode at %s is neither a constant nor a parameter' % ins.loc())
    collect(STEP_FN, 1)
    need(len(vals) >= 4, 'stepm: only %d scan-mode constants found' % len(vals))
    return sorted(vals)


# ------------------------------------------------------------------------------------------------------------------
ENTRY_ORIGINS = ('k:md', 'k:bs', 'k:u', 'k:O', 'k:AO', 'k:D', 'k:A', 'k:ctype', 'k:tok', 'k:ptype', 'k:sn_len')


class StepHooks(LibHooks):
    def __init__(self):
        LibHooks.__init__(self)
        self.K = None
        self.sym = {}
        self.backs = []
        self.applied = False
        self.api_mode = False
        self.api_rets = []
        self.post_writes = []

    def on_loop_entry(self, fn, head, entry):
        if fn.name != STEP_FN:
            return
        if self.api_mode:
            if self.applied:
                del entry[:]        # a later call of the token loop by the same API function: not part of the first iteration
            self.applied = True
            return
        need(not self.applied, 'stepm: %s has more than one top-level loop' % STEP_FN)
        self.applied = True
        for st in entry:
            self.apply_head(st)

    def on_return(self, st, fn, ret):
        LibHooks.on_return(self, st, fn, ret)
        if self.api_mode and fn.name == STEP_FN and 'step_base' in st.tags and not st.tags.get('api_first_done'):
            st.tags['api_first_done'] = True
            self.api_rets.append((st.copy(), ret))

    def on_step_backs(self, fn, head, backs):
        if fn.name == STEP_FN:
            self.backs.extend(backs)

    def stub_call(self, st, name, args, ins):
        """optional oracle for the name comparison: three outcomes (less / equal / greater), recorded on the path"""
        if name == CB_STUB:
            # the token callback: record which token kind it is told about
            v = args[1]
            st.tags['cbcalls'] = st.tags.get('cbcalls', ()) + ((st.store.const_of(v.a) if isinstance(v, Int) else None),)
            return [(st, None)]
        if not (self.K or {}).get('stubcmp'):
            return None
        if name == CMP_FN:
            return cmp_stub(st, args)
        if name == INTFORM_FN and st.top.fn.name == STEP_FN and len(args) == 3 and isinstance(args[2], Int) and st.store.const_of(args[2].a) == 1:
            # the shortest-form test of an integer value as an oracle: passes / fails
            out = []
            for okv in (1, 0):
                s = st.copy()
                s.tags['cmps'] = s.tags.get('cmps', ()) + ((('intform',), okv),)
                out.append((s, Int(1, Aff(okv))))
            return out
        return None

    # own record of the state-array cells written during the iteration (the J bookkeeping of LibHooks resets its own)
    def on_store(self, st, r, off, size, val, ins):
        if self.api_mode and 'step_base' in st.tags and r.name in ('STATE', 'P') and st.top.fn.name != STEP_FN and \
                not any(fr.fn.name == STEP_FN for fr in st.frames[1:]):
            # the public function itself writes parser state (not through the token loop): which field, and does the value change?
            lay = self.lay
            field = None
            if r.name == 'P':
                for n_, (o_, s_) in lay.parser.items():
                    if off.is_const() and o_ <= off.c < o_ + s_:
                        field = 'parser.' + n_
            else:
                ef = self.elem_field(off)
                if ef is not None:
                    for n_, (o_, s_) in lay.state.items():
                        if o_ <= ef[1] < o_ + s_:
                            field = 'level.' + n_
            old = (st.cells(r.name) or {}).get((off.key(), size))
            same = old is not None and repr(old[2]) == repr(val)
            if not same:
                self.post_writes.append((field or '%s+%r' % (r.name, off), ins.loc(), 'after' if st.tags.get('api_first_done') else 'outside'))
        LibHooks.on_store(self, st, r, off, size, val, ins)
        if r.name == 'STATE' and size is not None and 'step_base' in st.tags:
            st.tags['step_dirty'] = st.tags.get('step_dirty', frozenset()) | {(off.key(), size)}

    def on_memset(self, st, r, off, length, byte, ins):
        LibHooks.on_memset(self, st, r, off, length, byte, ins)
        if r.name == 'STATE' and 'step_base' in st.tags:
            lc = st.store.const_of(length.a) if isinstance(length, Int) else None
            st.tags['step_dirty'] = st.tags.get('step_dirty', frozenset()) | {(off.key(), lc if lc is not None else -1)}

    def apply_head(self, st):
        """overwrite the parser state with the generic loop-head state of K (the orig_* snapshots are already taken)"""
        lay = self.lay
        K = self.K
        F = lay.parser
        S_ = lay.state
        w8 = F['depth'][1] * 8

        def put(name, v):
            o = Aff(F[name][0])
            st.wcells('P')[(o.key(), F[name][1])] = (o, F[name][1], v)
        if K['dz']:
            d = Aff(0)
            base = Aff(0)
        else:
            d = Aff.sym(self.sym['k:D'])
            base = d.sub(1).mul(lay.ssize)
        put('depth', Int(w8, d))
        put('current_state', Ptr('STATE', base))
        st.mem['STATE'] = {}
        st.owned.add('STATE')
        cells = st.wcells('STATE')

        def cell(field, v, size=None):
            o = base.add(S_[field][0])
            sz = size or S_[field][1]
            cells[(o.key(), sz)] = (o, sz, v)
        cell('flags', Int(S_['flags'][1] * 8, Aff(K['flags'])))
        cell('array_depth', Int(S_['array_depth'][1] * 8, Aff.sym(self.sym['k:A'])))
        cell('current_type', Int(S_['current_type'][1] * 8, Aff.sym(self.sym['k:ctype'])))
        st.tags[('dirty', 'STATE')] = frozenset()
        st.tags['step_base'] = base
        st.tags['step_dirty'] = frozenset()
        st.tags['sig'] = ()


def build_entry(C, hooks, K):
    """state at the call of _advance_parsing(parser, mode, scan_name)"""
    lay = C.lay
    st = C.I.new_state()
    F = lay.parser
    w8 = F['depth'][1] * 8
    sym = {}
    sym['k:md'] = st.fresh('k:md', w8, 1, 255)
    sym['k:bs'] = st.fresh('k:bs', lay.szw, 2, lay.objmax)
    sym['k:u'] = st.fresh('k:u', lay.szw, 0, lay.objmax)
    sym['k:O'] = st.fresh('k:O', w8, 0, 255)
    sym['k:AO'] = st.fresh('k:AO', 8, 0, 255)
    sym['k:D'] = st.fresh('k:D', w8, 1, 255)
    sym['k:A'] = st.fresh('k:A', 8, 0, 255)
    sym['k:ctype'] = st.fresh('k:ctype', lay.state['current_type'][1] * 8)
    lo, hi = K['tok']
    sym['k:tok'] = st.fresh('k:tok', 8, lo, hi)
    sym['k:ptype'] = st.fresh('k:ptype', F['type'][1] * 8, 1, 2)
    S = st.store
    A_ = Aff.sym
    S.assume_ge0(A_(sym['k:bs']).sub(A_(sym['k:u'])))
    S.assume_ge0(A_(sym['k:md']).sub(A_(sym['k:O'])))
    S.assume_ge0(A_(sym['k:md']).sub(A_(sym['k:D'])))
    C.parser_regions(st, A_(sym['k:bs']), A_(sym['k:md']))

    def put(name, v):
        C.setcell(st, 'P', F[name][0], F[name][1], v)
    put('type', Int(F['type'][1] * 8, A_(sym['k:ptype'])))
    put('max_depth', Int(w8, A_(sym['k:md'])))
    put('buffer_size', Int(lay.szw, A_(sym['k:bs'])))
    put('buffer', Ptr('BUF', Aff(0)))
    put('state', Ptr('STATE', Aff(0)))
    put('cb', Fn(CB_STUB) if K.get('cbstub') else NULL)
    put('cb_context', NULL)
    put('error_flags', Int(32, Aff(0)))
    put('buffer_used', Int(lay.szw, A_(sym['k:u'])))
    # the values the call-entry snapshots (orig_*) will take: any depth / array depth
    put('depth', Int(w8, A_(sym['k:O'])))
    put('current_state', Ptr('STATE', Aff(0)))
    st.tags[('default', 'STATE')] = 'unknown'
    st.tags[('default', 'P')] = 'unknown'
    st.tags['J'] = True
    o = Aff(lay.state['array_depth'][0])
    st.wcells('STATE')[(o.key(), lay.state['array_depth'][1])] = (o, lay.state['array_depth'][1], Int(8, A_(sym['k:AO'])))
    st.bufmemo[('BUF', A_(sym['k:u']).key())] = sym['k:tok']
    args = [Ptr('P', Aff(0)), Int(8, Aff(K['mode']))]
    if K.get('lookup'):
        n = st.fresh('k:sn_len', lay.szw, 0, lay.objmax)
        sym['k:sn_len'] = n
        st.add_region(Region('USPAN', 'span', A_(n), readonly=True, content='bytes'))
        st.add_region(Region('SN', 'obj', Aff(2 * lay.ptr)))
        st.mem['SN'] = {}
        st.owned.add('SN')
        C.setcell(st, 'SN', lay.bbuf['bsize'][0], lay.ptr, Int(lay.szw, A_(n)))
        C.setcell(st, 'SN', lay.bbuf['bptr'][0], lay.ptr, Ptr('USPAN', Aff(0)))
        args.append(Ptr('SN', Aff(0)))
    else:
        args.append(NULL)
    hooks.sym = sym
    hooks.K = K
    st.tags['entry_label'] = 'step'
    st.tags['entry_fn'] = STEP_FN
    return st, args, sym


def _desc(st, v, names):
    """value -> picklable description over the loop-head symbols"""
    if isinstance(v, Zero):
        return ('c', 0)
    if isinstance(v, Int):
        c = st.store.const_of(v.a)
        if c is not None:
            return ('c', c)
        if all(s in names for s in v.a.t):
            return ('aff', tuple(sorted((names[s], k) for s, k in v.a.t.items())), v.a.c)
        return ('?', 'int')
    if isinstance(v, Null):
        return ('null',)
    if isinstance(v, Ptr):
        o = v.off
        if all(s in names for s in o.t):
            return ('ptr', v.region, tuple(sorted((names[s], k) for s, k in o.t.items())), o.c)
        return ('ptr', v.region, '?')
    return ('?', type(v).__name__)


def _norm_sig(sig):
    """call chains are taken relative to the token-loop function, so that a path reached through a public function and the
    same path reached by calling the loop directly have the same signature"""
    out = []
    for ent in sig:
        (chain, f, b, d) = ent[:4]
        deps = ent[4] if len(ent) > 4 else None
        idx = None
        for i, (fname, loc) in enumerate(chain):
            if fname == STEP_FN:
                idx = i
        if idx is not None:
            chain = tuple(loc for (fname, loc) in chain[idx + 1:])
        else:
            chain = ('<outside>',) + tuple(loc for (fname, loc) in chain)
        out.append((chain, f, b, d, deps))
    return tuple(out)


def outcome(C, hooks, st, kind, ret, phi_sf):
    lay = C.lay
    F = lay.parser
    S = st.store
    sym = hooks.sym
    names = {v: k for k, v in sym.items()}
    rec = {'kind': kind}
    if kind == 'ret':
        rec['ret'] = S.const_of(ret.a) if isinstance(ret, Int) else None
    else:
        v = st.top.env.get(phi_sf)
        rec['sf'] = S.const_of(v.a) if isinstance(v, Int) else None

    def fld(name):
        c = (st.cells('P') or {}).get(((F[name][0], ()), F[name][1]))
        return c[2] if c else None
    e = fld('error_flags')
    rec['err'] = S.const_of(e.a) if isinstance(e, Int) else None
    if rec['err'] is None and isinstance(e, Int) and S.entails_ge0(e.a.sub(1)):
        rec['err'] = -1
    u = fld('buffer_used')
    u0 = Aff.sym(sym['k:u'])
    cur = '?'
    if isinstance(u, Int) and all(z in S.ivl for z in u.a.t):
        if S.entails_ge0(u.a.sub(u0).sub(1)):
            cur = 'adv'
        elif S.entails_eq0(u.a.sub(u0)):
            cur = 'same'
        elif S.entails_ge0(u0.sub(u.a).sub(1)):
            cur = 'back'
    rec['cursor'] = cur
    rec['cursor_by'] = _desc(st, Int(lay.szw, u.a.sub(u0)), names) if isinstance(u, Int) else ('?',)
    d = fld('depth')
    d0 = Aff(0) if hooks.K['dz'] else Aff.sym(sym['k:D'])
    rec['ddepth'] = None
    if isinstance(d, Int):
        dd = S.const_of(d.a.sub(d0)) if all(z in S.ivl for z in d.a.t) else None
        rec['ddepth'] = dd
    cs = fld('current_state')
    base = st.tags.get('step_base')
    rec['cs_level'] = None
    if isinstance(cs, Ptr) and cs.region == 'STATE' and base is not None:
        dl = cs.off.sub(base)
        c = S.const_of(dl) if all(z in S.ivl for z in dl.t) else None
        if c is not None and c % lay.ssize == 0:
            rec['cs_level'] = c // lay.ssize
    # cells of the state array written during the iteration
    eff = {}
    fields = sorted((o, s, n) for n, (o, s) in lay.state.items())
    dirty = st.tags.get('step_dirty') or frozenset()
    cells = st.cells('STATE') or {}
    for (okey, sz) in dirty:
        off = Aff(okey[0], dict(okey[1]))
        dl = off.sub(base) if base is not None else off
        c = S.const_of(dl) if all(z in S.ivl for z in dl.t) else None
        if c is None:
            eff[('?', repr(off))] = ('?',)
            continue
        lvl, fo = divmod(c, lay.ssize)
        if sz == lay.ssize and fo == 0:
            eff[(lvl, '*')] = ('wipe',)
            continue
        fname = None
        for (o, s, n) in fields:
            if o <= fo < o + s:
                fname = n if fo == o and sz == s else '%s+%d/%d' % (n, fo - o, sz)
                if n == 'current_name' and sz == lay.ptr:
                    for bn, (bo, bsz) in lay.bbuf.items():
                        if bo == fo - o and bsz == sz:
                            fname = 'current_name.' + bn
        hit = cells.get((okey, sz))
        eff[(lvl, fname)] = _desc(st, hit[2], names) if hit is not None else ('?', 'gone')
    rec['eff'] = sorted(eff.items(), key=repr)
    rec['sig'] = _norm_sig(st.tags.get('sig', ()))
    rec['cmps'] = st.tags.get('cmps', ())
    rec['cbcalls'] = st.tags.get('cbcalls', ())
    # path condition over the loop-head symbols
    ivl = {}
    for s_, o in names.items():
        if s_ in S.ivl:
            ivl[o] = S.ivl[s_]
    rel = []
    for e_ in S.rel:
        if all(s in names for s in e_.t):
            rel.append((e_.c, tuple(sorted((names[s], k) for s, k in e_.t.items()))))
    neq = []
    for e_ in S.neq:
        if all(s in names for s in e_.t):
            neq.append((e_.c, tuple(sorted((names[s], k) for s, k in e_.t.items()))))
    rec['cond'] = {'ivl': ivl, 'rel': rel, 'neq': neq}
    rec['path'] = ['%s:%d:%s' % p if p[1] else p[2] for p in st.pathlist()][-10:]
    evs = [e_[0] for e_ in st.eventlist()]
    rec['events'] = evs[-6:]
    return rec


def scan_flags_phi(fn, fi):
    """the loop-head phi that carries the scan mode: its value on loop entry is parameter 1"""
    loops = [lp for h, lp in fi['loops'].items() if not any(h in o['body'] and o is not lp for o in fi['loops'].values())]
    need(len(loops) == 1, 'stepm: %s has %d top-level loops (expected the token loop only)' % (fn.name, len(loops)))
    lp = loops[0]
    pname = fn.params[1][1]
    for ins in fn.blocks[lp['head']].instrs:
        if ins.op != 'phi':
            break
        for (v, lb) in ins.attrs['incoming']:
            if lb not in lp['body'] and v == ('local', pname):
                return ins.res
    raise AnalysisBroken('stepm: no loop-head phi of %s takes the scan-mode parameter on entry' % fn.name)


def eval_step(mod, K):
    hooks = StepHooks()
    C = Contracts(mod, hooks)
    C.I.ctx.limits['step'] = (STEP_FN,)
    C.I.ctx.limits['sig'] = True
    C.I.ctx.limits['cap'] = 4096
    fn = mod.functions[STEP_FN]
    phi = scan_flags_phi(fn, C.I.info(fn))
    st, args, sym = build_entry(C, hooks, K)
    st.frames = [C._root_frame()]
    outs = C.split_bool_returns(C.I.call_function(st, fn, args, None))
    need(hooks.applied, 'stepm: the token loop of %s was not reached' % STEP_FN)
    res = []
    for (s, rv) in outs:
        if 'step_base' not in s.tags:
            continue        # left before the loop (error latched etc.): not a loop iteration
        res.append(outcome(C, hooks, s, 'ret', rv, phi))
    for s in hooks.backs:
        res.append(outcome(C, hooks, s, 'cont', None, phi))
    unproven = [x for x in hooks.log if x[0] == 'ob' and not x[2]]
    return res, ['%s %s %s' % (x[1], x[3].loc(), x[4]) for x in unproven][:5]


# ---- pool ------------------------------------------------------------------------------------------------------
_G = {}


def _work(i):
    K = _G['keys'][i]
    t0 = time.time()
    try:
        res, unproven = eval_step(_G['mod'], K)
        return {'ok': True, 'K': K, 'outcomes': res, 'unproven': unproven, 'wall': time.time() - t0}
    except AnalysisBroken as e:
        return {'ok': False, 'K': K, 'error': 'AnalysisBroken: %s' % e}
    except Exception as e:
        return {'ok': False, 'K': K, 'error': '%s: %s\n%s' % (type(e).__name__, e, traceback.format_exc()[-1500:])}


def _work_api(i):
    (api, K) = _G['keys'][i]
    try:
        res, reached, post_writes = eval_api_step(_G['mod'], api, K)
        return {'ok': True, 'K': K, 'api': api, 'outcomes': res, 'reached': reached, 'post_writes': post_writes}
    except AnalysisBroken as e:
        return {'ok': False, 'K': K, 'api': api, 'error': 'AnalysisBroken: %s' % e}
    except Exception as e:
        return {'ok': False, 'K': K, 'api': api, 'error': '%s: %s\n%s' % (type(e).__name__, e, traceback.format_exc()[-1500:])}


def run_api_keys(mod, items, jobs=None):
    """items: list of (api function name, K)"""
    _G['mod'] = mod
    _G['keys'] = items
    sys.setrecursionlimit(20000)
    jobs = jobs or min(16, os.cpu_count() or 4)
    with mp.get_context('fork').Pool(jobs) as pool:
        out = pool.map(_work_api, range(len(items)), chunksize=4)
    for r in out:
        if not r['ok']:
            raise AnalysisBroken('first-iteration evaluation of %s %r failed: %s' % (r['api'], r['K'], r['error']))
    return out


def run_keys(mod, keys, jobs=None):
    _G['mod'] = mod
    _G['keys'] = keys
    sys.setrecursionlimit(20000)
    jobs = jobs or min(16, os.cpu_count() or 4)
    if jobs == 1 or len(keys) <= 1:
        out = [_work(i) for i in range(len(keys))]
    else:
        with mp.get_context('fork').Pool(jobs) as pool:
            out = pool.map(_work, range(len(keys)), chunksize=4)
    for r in out:
        if not r['ok']:
            raise AnalysisBroken('step evaluation %r failed: %s' % (r['K'], r['error']))
    return out


# ---- co-feasibility of two outcomes of the same loop-head state ----------------------------------------------------
def contradictory(sig1, sig2, ignore=()):
    """do the two paths take different directions at the same branch (same call chain, k-th visit)?  Decisions whose condition
    is only about the symbols in `ignore` (by origin) are not compared."""
    def index(sig):
        seen = {}
        out = {}
        for ent in sig:
            (chain, f, b, d) = ent[:4]
            deps = ent[4] if len(ent) > 4 else None
            k = (chain, f, b)
            n = seen.get(k, 0)
            seen[k] = n + 1
            if ignore and deps is not None and deps and all(x in ignore for x in deps):
                continue
            out[k + (n,)] = d
        return out
    a, b = index(sig1), index(sig2)
    for k, d in a.items():
        e = b.get(k)
        if e is None:
            continue
        if e[0] != d[0]:
            return True
        if e[1] is not None and d[1] is not None and e[1] != d[1]:
            return True         # same direction, different sign piece of the compared value
    return False


def cofeasible(o1, o2, ignore=()):
    """can the two outcomes happen on the same loop-head state?  With `ignore` (origins), the named symbols are treated as
    independent between the two outcomes: constraints and decisions that mention only them are dropped."""
    if contradictory(o1['sig'], o2['sig'], ignore):
        return False
    c1, c2 = o1['cond'], o2['cond']
    if ignore:
        def strip(c):
            return {'ivl': {o: v for o, v in c['ivl'].items() if o not in ignore},
                    'rel': [(k, t) for (k, t) in c['rel'] if not any(o in ignore for (o, _) in t)],
                    'neq': [(k, t) for (k, t) in c['neq'] if not any(o in ignore for (o, _) in t)]}
        c1, c2 = strip(c1), strip(c2)
    ivl = {}
    for o in set(c1['ivl']) | set(c2['ivl']):
        a = c1['ivl'].get(o, (0, 1 << 64))
        b = c2['ivl'].get(o, (0, 1 << 64))
        lo, hi = max(a[0], b[0]), min(a[1], b[1])
        if lo > hi:
            return False
        ivl[o] = (lo, hi)
    S = Store()
    for o, (lo, hi) in ivl.items():
        S.declare(o, lo, hi)
    for (c, t) in list(c1['rel']) + list(c2['rel']):
        if not S.assume_ge0(Aff(c, dict(t))):
            return False
    cons = list(S.rel)
    for o, (lo, hi) in S.ivl.items():
        cons.append(Aff.sym(o).sub(lo))
        cons.append(Aff.sym(o).neg().add(hi))
    syms = set(S.ivl)
    if fm_infeasible(cons, syms):
        return False
    # disequalities: e != 0 is satisfiable together with the rest only if e >= 1 or e <= -1 is (each checked on its own)
    for (c, t) in list(c1['neq']) + list(c2['neq']):
        e = Aff(c, dict(t))
        if fm_infeasible(cons + [e.sub(1)], syms) and fm_infeasible(cons + [e.neg().sub(1)], syms):
            return False
    return True


# ---- the first iteration of the token loop as reached through a public API function ------------------------------------
def eval_api_step(mod, api, K):
    """like eval_step, but the generic state is the state in which the public function `api` is called (so depth / array
    depth at call entry are the current ones) and whatever the function does before it calls the token loop is included"""
    hooks = StepHooks()
    hooks.api_mode = True
    C = Contracts(mod, hooks)
    C.I.ctx.limits['step'] = (STEP_FN,)
    C.I.ctx.limits['sig'] = True
    C.I.ctx.limits['cap'] = 4096
    fn = mod.functions.get(api)
    need(fn is not None, 'stepm: %s not found' % api)
    lfn = mod.functions[STEP_FN]
    phi = scan_flags_phi(lfn, C.I.info(lfn))
    st, args, sym = build_entry(C, hooks, dict(K, mode=0))
    lay = C.lay
    F = lay.parser
    S_ = lay.state
    w8 = F['depth'][1] * 8
    A_ = Aff.sym
    S = st.store
    # call entry == loop head: O = D, AO = A
    if K['dz']:
        d = Aff(0)
        base = Aff(0)
        S.assume_eq0(A_(sym['k:O']))
    else:
        d = A_(sym['k:D'])
        base = d.sub(1).mul(lay.ssize)
        S.assume_eq0(A_(sym['k:O']).sub(d))
    S.assume_eq0(A_(sym['k:AO']).sub(A_(sym['k:A'])))
    C.setcell(st, 'P', F['depth'][0], F['depth'][1], Int(w8, d))
    C.setcell(st, 'P', F['current_state'][0], F['current_state'][1], Ptr('STATE', base))
    st.mem['STATE'] = {}
    st.owned.add('STATE')
    for field, v in (('flags', Int(S_['flags'][1] * 8, Aff(K['flags']))), ('array_depth', Int(8, A_(sym['k:A']))),
                     ('current_type', Int(S_['current_type'][1] * 8, A_(sym['k:ctype'])))):
        o = base.add(S_[field][0])
        st.wcells('STATE')[(o.key(), S_[field][1])] = (o, S_[field][1], v)
    st.tags['step_base'] = base
    st.tags['step_dirty'] = frozenset()
    st.tags['sig'] = ()
    a = [Ptr('P', Aff(0))]
    np_ = len(fn.params)
    if np_ == 2:
        st.add_region(Region('OUT', 'obj', Aff(2 * lay.ptr)))
        st.mem['OUT'] = {}
        st.owned.add('OUT')
        st.tags[('default', 'OUT')] = 'unknown'
        a.append(Ptr('OUT', Aff(0)))
    elif np_ == 3:
        n = st.fresh('k:sn_len', lay.szw, 0, lay.objmax)
        sym['k:sn_len'] = n
        st.add_region(Region('USPAN', 'span', A_(n), readonly=True, content='bytes'))
        a += [Ptr('USPAN', Aff(0)), Int(lay.szw, A_(n))]
    need(np_ in (1, 2, 3), 'stepm: unexpected parameter list of %s' % api)
    hooks.sym = sym
    st.frames = [C._root_frame()]
    C.I.call_function(st, fn, a, None)
    res = []
    for (s, rv) in hooks.api_rets:
        res.append(outcome(C, hooks, s, 'ret', rv, phi))
    for s in hooks.backs:
        res.append(outcome(C, hooks, s, 'cont', None, phi))
    return res, hooks.applied, sorted(set(hooks.post_writes))


def expecting_field_constant(mod):
    """the level-flags value that means "inside an object, a field name comes next": what a freshly entered object level gets
    (read off the extracted step for an OBJECT_BEGIN token, so that the checks do not carry the encoding)"""
    tc = token_classes()
    vals = set()
    for m in mode_constants(mod):
        res, _ = eval_step(mod, {'tok': tc['object_begin'], 'flags': 0, 'dz': True, 'mode': m, 'lookup': False})
        for o in res:
            if o['err'] == 0 and o['cursor'] == 'adv' and o['ddepth'] == 1:
                for ((lvl, field), desc) in o['eff']:
                    if field == 'flags' and lvl == o['cs_level'] and desc[0] == 'c':
                        vals.add(desc[1])
    need(len(vals) == 1, 'stepm: the flags value of a freshly entered object level is not a single constant (%r)' % sorted(vals))
    return vals.pop()
