"""C02, clause (f): verify's verdict on bounded token sequences, decided on the machine extracted from the code.

The machine of props/c06.py (step relation of the token loop in VERIFY mode, name comparison and integer shortest-form
test replaced by oracles) is run on EVERY token sequence up to a length bound - well-formed or not: wrong alternation,
unmatched or mismatched END tokens, misordered and duplicate names, non-minimal integers, values after the root END,
missing END, nesting beyond max_depth, bytes that are no token - and its verdict (and, when nesting is the first
obstacle, its error code) is compared with a recogniser written directly from the Binson grammar.  binson_parser_verify
itself is extracted as a decision tree (reset outcome by first/last byte and size, loop call, result mapping).

Token-internal well-formedness (length prefixes, shortest-form sets) is clauses (a) and (b); here every token is
internally well formed except where an oracle says otherwise."""
import os

from engine.contracts import Contracts, LibHooks, Layout
from engine.absval import Int, Ptr, Null, Top, Region, NULL
from engine.lin import Aff
from engine.common import need, AnalysisBroken
from props import stepm, c06, c08

VERIFY = 'binson_parser_verify'

# alphabet: name -> bytes (strings carry a rank 0..2 so that ordering and duplicates can be expressed)
ALPHA_Q = ['OB', 'OE', 'AB', 'AE', 'S0', 'S1', 'S2', 'I', 'Ibad', 'B']
ALPHA_T = ALPHA_Q + ['D', 'Y', 'X']
ENC = {'OB': bytes([0x40]), 'OE': bytes([0x41]), 'AB': bytes([0x42]), 'AE': bytes([0x43]),
       'S0': bytes([0x14, 1, 0x61]), 'S1': bytes([0x14, 1, 0x62]), 'S2': bytes([0x14, 1, 0x63]),
       'I': bytes([0x10, 1]), 'Ibad': bytes([0x11, 1, 0]), 'B': bytes([0x44]),
       'D': bytes([0x46, 0, 0, 0, 0, 0, 0, 0xf0, 0x3f]), 'Y': bytes([0x18, 1, 0]), 'X': bytes([0x00])}


# ---- reference recogniser (straight from the grammar) --------------------------------------------------------------------
def reference(seq, ptype, md):
    """-> ('ok',) | ('err', 'depth' | 'other').  object = OB (name value)* OE, names strictly ascending; array = AB value* AE;
    value = scalar | object | array; integers in shortest form; object nesting <= md; nothing after the root."""
    n = len(seq)
    pos = 0

    class Bad(Exception):
        pass

    def value(depth):
        nonlocal pos
        if pos >= n:
            raise Bad('other')
        t = seq[pos]
        if t == 'OB':
            obj(depth)
        elif t == 'AB':
            arr(depth)
        elif t in ('S0', 'S1', 'S2', 'I', 'B', 'D', 'Y'):
            pos += 1
        else:
            raise Bad('other')

    def obj(depth):
        nonlocal pos
        # seq[pos] == 'OB'
        if depth + 1 > md:
            raise Bad('depth')
        pos += 1
        prev = None
        while True:
            if pos >= n:
                raise Bad('other')
            t = seq[pos]
            if t == 'OE':
                pos += 1
                return
            if t not in ('S0', 'S1', 'S2'):
                raise Bad('other')
            r = int(t[1])
            if prev is not None and r <= prev:
                raise Bad('other')
            prev = r
            pos += 1
            value(depth + 1)

    def arr(depth):
        nonlocal pos
        pos += 1
        while True:
            if pos >= n:
                raise Bad('other')
            if seq[pos] == 'AE':
                pos += 1
                return
            value(depth)
    try:
        if n == 0:
            raise Bad('other')
        if ptype == 1:
            if seq[0] != 'OB':
                raise Bad('other')
            obj(0)
        else:
            if seq[0] != 'AB':
                raise Bad('other')
            arr(1)          # an array parser starts at depth 1
        if pos != n:
            raise Bad('other')
        return ('ok',)
    except Bad as e:
        return ('err', e.args[0])


# ---- verify as a decision tree --------------------------------------------------------------------------------------------
class VHooks(c06.StubHooks):
    def stub_call(self, st, name, args, ins):
        if name == stepm.STEP_FN:
            # remember the state in which the loop is entered (what reset established)
            lay = self.lay
            F = lay.parser
            S = st.store

            def fld(n):
                c = (st.cells('P') or {}).get(((F[n][0], ()), F[n][1]))
                return S.const_of(c[2].a) if c is not None and isinstance(c[2], Int) else None
            from engine.absval import Zero
            cells_zero = all(isinstance(v, Zero) or (isinstance(v, Int) and S.const_of(v.a) == 0) or isinstance(v, Null)
                             for (o_, sz_, v) in (st.cells('STATE') or {}).values())
            st.tags['loop_entry'] = (fld('depth'), fld('buffer_used'), fld('error_flags'),
                                     st.tags.get(('default', 'STATE')) == 'zero' and not st.tags.get(('havoc', 'STATE')) and cells_zero)
        return c06.StubHooks.stub_call(self, st, name, args, ins)

    def on_store(self, st, r, off, size, val, ins):
        LibHooks.on_store(self, st, r, off, size, val, ins)      # reset legitimately writes parser state

    def on_memset(self, st, r, off, length, byte, ins):
        LibHooks.on_memset(self, st, r, off, length, byte, ins)


def verify_summary(mod, tc):
    """-> {(ptype, size class, first token class, last token class): [ {calls, ret, loop_entry} ]}"""
    fn = mod.functions.get(VERIFY)
    need(fn is not None, 'C02: %s not found' % VERIFY)
    res = {}
    classes = sorted(tc)
    for ptype in (1, 2):
        for small in (True, False):
            for first in (classes if not small else [None]):
                for last in (classes if not small else [None]):
                    hooks = VHooks()
                    C = Contracts(mod, hooks)
                    lay = C.lay
                    st = C.I.new_state()
                    F = lay.parser
                    w8 = F['depth'][1] * 8
                    md = st.fresh('v:md', w8, 1, 255)
                    bs = st.fresh('v:bs', lay.szw, 0 if small else 2, 1 if small else lay.objmax)
                    C.parser_regions(st, Aff.sym(bs), Aff.sym(md))
                    for name, (off, size) in F.items():
                        if name == 'buffer':
                            v = Ptr('BUF', Aff(0))
                        elif name == 'state':
                            v = Ptr('STATE', Aff(0))
                        elif name == 'max_depth':
                            v = Int(w8, Aff.sym(md))
                        elif name == 'buffer_size':
                            v = Int(lay.szw, Aff.sym(bs))
                        elif name == 'type':
                            v = Int(size * 8, Aff(ptype))
                        elif name in ('cb', 'cb_context'):
                            v = NULL
                        elif name == 'current_state':
                            v = Ptr('STATE', Aff(0))
                        else:
                            v = st.fresh_int('v:%s' % name, size * 8)
                        C.setcell(st, 'P', off, size, v)
                    st.tags[('default', 'STATE')] = 'unknown'
                    st.tags[('havoc', 'STATE')] = 'all'
                    st.tags['J'] = False
                    if not small:
                        a = st.fresh('v:first', 8, *tc[first])
                        b = st.fresh('v:last', 8, *tc[last])
                        st.bufmemo[('BUF', Aff(0).key())] = a
                        st.bufmemo[('BUF', Aff.sym(bs).sub(1).key())] = b
                    st.tags['record_cmp_in_calls'] = True
                    st.frames = [C._root_frame()]
                    outs = C.split_bool_returns(C.I.call_function(st, fn, [Ptr('P', Aff(0))], None))
                    paths = []
                    for (s, rv) in outs:
                        rc = s.store.const_of(rv.a) if isinstance(rv, Int) else None
                        need(rc is not None, 'C02: result of %s is not decided by (reset outcome, loop result, error)' % VERIFY)
                        paths.append({'calls': s.tags.get('calls', ()), 'ret': 1 if rc else 0, 'loop_entry': s.tags.get('loop_entry')})
                    res[(ptype, small, first, last)] = paths
    return res


# ---- the machine's verdict ---------------------------------------------------------------------------------------------------
def machine_verify(M, vsum, seq, ptype, md):
    """-> (accepted?, error code or None, why)"""
    toks = [(None, ENC[t]) for t in seq]
    offs = []
    o = 0
    for (_, raw) in toks:
        offs.append(o)
        o += len(raw)
    total = o
    small = total < 2
    if small:
        key = (ptype, True, None, None)
    else:
        first = M.tokclass(toks[0][1][0])
        lastbyte = toks[-1][1][-1]
        key = (ptype, False, first, M.tokclass(lastbyte))
    paths = vsum.get(key)
    need(paths is not None, 'C02: no summary of %s for %r' % (VERIFY, key))
    nocall = [p for p in paths if not p['calls']]
    if nocall:
        need(len(nocall) == len(paths) and len({p['ret'] for p in paths}) == 1, 'C02: summary of %s is ambiguous for %r' % (VERIFY, key))
        return (bool(paths[0]['ret']), None, 'rejected before the token loop')
    le = {p['loop_entry'] for p in paths}
    need(len(le) == 1, 'C02: %s enters the token loop in different states for %r' % (VERIFY, key))
    depth0, used0, err0, zeroed = le.pop()
    need(depth0 is not None and used0 == 0 and err0 == 0 and zeroed, 'C02: state established by reset before the token loop is not (depth const, cursor 0, no error, state zeroed): %r' % ((depth0, used0, err0, zeroed),))
    modes = {p['calls'][0][0] for p in paths}
    need(len(modes) == 1, 'C02: %s passes different scan modes' % VERIFY)
    mode = modes.pop()
    doc = (toks, offs, total, ptype, md)
    ms = (0, depth0, tuple((0, 0, 0, None) for _ in range(md)))
    M.seq = seq
    r = M.loop(doc, ms, mode)
    if r[0] == 'err':
        lr, e, code = 0, 1, r[1]
    else:
        lr, e, code = (1 if r[2] else 0), 0, None
    fin = [p for p in paths if p['calls'][0][2] == lr and p['calls'][0][3] == e]
    need(fin and len({p['ret'] for p in fin}) == 1, 'C02: summary of %s has no unique result for loop result %d / error %d' % (VERIFY, lr, e))
    return (bool(fin[0]['ret']), code, r[2] if r[0] == 'err' else '')


class VMachine(c06.Machine):
    """token attributes for the oracles come from the sequence being verified"""

    def oracle(self, kinds, ti, levels_name_tok, want=None):
        seq = self.seq
        if kinds == ('intform',):
            return 1 if seq[ti] != 'Ibad' else 0
        if kinds == ('level', 'local'):
            # compare(previous name at this level, this name)
            if levels_name_tok is None:
                return 99         # no previous name: outcomes that compare are not on this path
            a = seq[levels_name_tok]
            b = seq[ti]
            need(a[0] == 'S' and b[0] == 'S', 'C02: name comparison on tokens that are not strings')
            ra, rb = int(a[1]), int(b[1])
            return (ra > rb) - (ra < rb)
        raise AnalysisBroken('C02: unexpected oracle question %r' % (kinds,))


def valid_docs(maxlen, ptype, scalars=('I', 'B', 'S0')):
    """all well-formed documents (token tuples) of at most maxlen tokens"""
    from functools import lru_cache

    @lru_cache(None)
    def values(n):
        out = []
        if n >= 1:
            out += [(s_,) for s_ in scalars]
        if n >= 2:
            out += objects(n) + arrays(n)
        return out

    @lru_cache(None)
    def objects(n):
        res = []

        def fields(budget, minrank):
            yield ()
            for r in range(minrank, 3):
                if budget >= 2:
                    for v in values(budget - 1):
                        for rest in fields(budget - 1 - len(v), r + 1):
                            yield ('S%d' % r,) + v + rest
        for f in fields(n - 2, 0):
            res.append(('OB',) + f + ('OE',))
        return res

    @lru_cache(None)
    def arrays(n):
        res = []

        def elems(budget):
            yield ()
            if budget >= 1:
                for v in values(budget):
                    for rest in elems(budget - len(v)):
                        yield v + rest
        for e in elems(n - 2):
            res.append(('AB',) + e + ('AE',))
        return res
    return objects(maxlen) if ptype == 1 else arrays(maxlen)


def near_valid(maxlen, alpha):
    """well-formed documents up to maxlen tokens and every single-token substitution, deletion, insertion and adjacent swap"""
    seen = set()
    for ptype in (1, 2):
        for d in valid_docs(maxlen, ptype):
            cands = [d]
            for i in range(len(d)):
                cands.append(d[:i] + d[i + 1:])
                for a in alpha:
                    if a != d[i]:
                        cands.append(d[:i] + (a,) + d[i + 1:])
                    cands.append(d[:i] + (a,) + d[i:])
                if i + 1 < len(d):
                    cands.append(d[:i] + (d[i + 1], d[i]) + d[i + 2:])
            for a in alpha:
                cands.append(d + (a,))
            for c in cands:
                if c not in seen:
                    seen.add(c)
                    yield c


def _seqs():
    import itertools
    for n in _G['lens']:
        for seq in itertools.product(_G['alpha'], repeat=n):
            yield seq
    if _G.get('near'):
        for seq in near_valid(_G['near'], _G['alpha']):
            if len(seq) > max(_G['lens']):
                yield seq


def _part(k):
    M, vsum, lens, alpha, jobs, mds = _G['M'], _G['vsum'], _G['lens'], _G['alpha'], _G['jobs'], _G['mds']
    import itertools
    out = {'n': 0, 'accepted': 0, 'bad': {}}
    i = 0
    try:
        for _once in (0,):
            for seq in _seqs():
                i += 1
                if i % jobs != k:
                    continue
                for ptype in (1, 2):
                    for md in mds:
                        out['n'] += 1
                        ref = reference(seq, ptype, md)
                        acc, code, why = machine_verify(M, vsum, seq, ptype, md)
                        if acc:
                            out['accepted'] += 1
                        what = None
                        if acc != (ref[0] == 'ok'):
                            what = 'accepts' if acc else 'rejects'
                        elif not acc and ref[1] == 'depth' and code is not None and code != [_G['depth_code']]:
                            what = 'code'
                        if what and (what not in out['bad'] or len(seq) < len(out['bad'][what][0])):
                            out['bad'][what] = (seq, ptype, md, ref, code, why)
    except AnalysisBroken as e:
        return {'broken': str(e)}
    return out


_G = {}


def lang_clause(rep, mod, tier):
    lay = Layout(mod)
    tc = stepm.token_classes()
    table, modes, stats = c08.extract(mod, lookups=False, stubcmp=True)
    C = Contracts(mod, LibHooks())
    enums = C._enums()
    need('BINSON_ERROR_MAX_DEPTH_OBJECT' in enums, 'C02: enumerator BINSON_ERROR_MAX_DEPTH_OBJECT not found')
    vsum = verify_summary(mod, tc)
    M = VMachine(table, {}, tc, lay, enums)
    M.prop = 'C02'
    M.allow_errors = True
    runs = [(ALPHA_Q, range(0, 6), 8)] if tier == 'quick' else [(ALPHA_Q, range(0, 8), 9), (ALPHA_T, range(0, 6), 8)]
    jobs = min(16, os.cpu_count() or 4)
    import multiprocessing as mp
    import sys
    sys.setrecursionlimit(20000)
    n = acc = 0
    bad = {}
    for (alpha, lens, near) in runs:
        _G.update(M=M, vsum=vsum, lens=list(lens), alpha=alpha, near=near, jobs=jobs, mds=(1, 2, 3), depth_code=enums['BINSON_ERROR_MAX_DEPTH_OBJECT'])
        with mp.get_context('fork').Pool(jobs) as pool:
            parts = pool.map(_part, range(jobs))
        for p in parts:
            if 'broken' in p:
                raise AnalysisBroken(p['broken'])
            n += p['n']
            acc += p['accepted']
            for k, v in p['bad'].items():
                if k not in bad or len(v[0]) < len(bad[k][0]):
                    bad[k] = v
    need(n >= 10000 and acc >= 20, 'C02: only %d sequences explored (%d accepted)' % (n, acc))
    texts = {'accepts': 'verify accepts a token sequence the grammar rejects', 'rejects': 'verify rejects a well-formed document',
             'code': 'nesting is the first obstacle but the error code is not MAX_DEPTH_OBJECT'}
    for what in ('accepts', 'rejects', 'code'):
        hit = bad.get(what)
        if hit is None:
            rep.ob(True, 'verify:LANG:%s' % what, '', sample={'compared': texts[what], 'sequences': n})
        else:
            seq, ptype, md, ref, code, why = hit
            rep.ob(False, 'verify:LANG:%s' % what,
                   'C02(f) LANG %s: tokens [%s] (%s parser, max_depth %d): grammar says %s, the extracted machine %s' % (
                       texts[what], ' '.join(seq), 'object' if ptype == 1 else 'array', md, ref, ('error %r' % (code,)) if code else 'accepts' if what == 'accepts' else why),
                   'token alphabet: OB { OE } AB [ AE ] S0<S1<S2 strings/names, I minimal integer, Ibad non-minimal integer, B boolean, D double, Y bytes, X no token')
    rep.coverage['language'] = {'token_sequences_x_parser_type_x_max_depth': n, 'accepted': acc,
                                'bounds': ['all sequences over %s up to length %d, plus every well-formed document up to %d tokens with all its single-token edits' % (list(a), max(l), nr) for (a, l, nr) in runs],
                                'max_depth_settings': [1, 2, 3], 'verify_summary_cases': len(vsum)}
