"""C04 - writer: stores stay inside `capacity` (absint, proof) and the counter is
independent of capacity and of earlier failures (taint, flow)."""
from engine import build, irload, runner, flow
from engine.contracts import API, LibHooks, Layout
from engine.absval import Int, Ptr
from engine.common import need
from props.c01 import collect

WRITER_FNS = [f for f, k in API.items() if 'W' in k]
KINDS = ('MEM-R', 'MEM-W', 'REGION-W', 'CALL-IND', 'EXTERN', 'FORMAT', 'INV-J')
CLEARING = ('binson_writer_init', 'binson_writer_reset')


class WHooks(LibHooks):
    """records every write that reaches the output buffer and the counter updates"""

    def _counter(self, st):
        F = self.lay.writer
        c = (st.cells('W') or {}).get(((F['buffer_used'][0], ()), F['buffer_used'][1]))
        return c[2] if c is not None else None

    def on_call(self, st, name, args, ins):
        if name == '_write' and len(args) == 2 and isinstance(args[1], Ptr) and 'W' in st.regions:
            bo = self.lay.bbuf['bsize']
            c = (st.cells(args[1].region) or {}).get((args[1].off.add(bo[0]).key(), bo[1]))
            st.tags[('wcall', len(st.frames))] = (self._counter(st), c[2] if c is not None else None, ins.loc())
            st.tags[('wcall-err', len(st.frames))] = self._werr(st)
            st.tags.pop('wcopy', None)

    def on_return(self, st, fn, ret):
        if fn.name == '_write' and 'W' in st.regions:
            rec = st.tags.pop(('wcall', len(st.frames) - 1), None)
            if rec is None:
                return
            before, bsize, loc = rec
            after = self._counter(st)
            ok = False
            if isinstance(before, Int) and isinstance(bsize, Int) and isinstance(after, Int):
                want = before.a.add(bsize.a)
                if after.a == want:
                    ok = True
                else:
                    sg = after.a.single()
                    info = st.syminfo.get(sg[0]) if sg and sg[1] == 1 and after.a.c == 0 else None
                    if info is not None and info.defn and info.defn[0] == 'addw' and info.defn[1].add(info.defn[2]) == want:
                        ok = True      # the same sum modulo 2^w (overflow cannot be excluded for an unconstrained counter)
                    elif st.store.entails_eq0(after.a.sub(want)):
                        ok = True
            self.log.append(('wcount', ok, loc, repr(before), repr(bsize), repr(after), st.tags.get('wentry')))
            # RANGE iff the piece does not fit; a piece that fits is stored contiguously at the counter
            e0 = st.tags.pop(('wcall-err', len(st.frames) - 1), None)
            e1 = self._werr(st)
            copies = st.tags.pop('wcopy', ())
            S = st.store
            F = self.lay.writer
            capc = (st.cells('W') or {}).get(((F['buffer_size'][0], ()), F['buffer_size'][1]))
            if isinstance(e0, Int) and S.const_of(e0.a) == 0 and isinstance(e1, Int) and isinstance(before, Int) and isinstance(bsize, Int) and capc is not None:
                cap = capc[2].a
                total = before.a.add(bsize.a)
                c1 = S.const_of(e1.a)
                if c1 == 0:
                    okc = len(copies) == 1 and S.entails_eq0(copies[0][0].sub(before.a)) and S.entails_eq0(copies[0][1].sub(bsize.a)) and \
                        S.entails_ge0(cap.sub(total))
                    self.log.append(('wfit', 'stored', okc, loc, 'copies=%r before=%r bsize=%r' % ([(repr(a), repr(b)) for a, b in copies], before, bsize)))
                elif c1 is not None:
                    okc = not copies and S.entails_ge0(total.sub(cap).sub(1))
                    self.log.append(('wfit', 'rejected', okc, loc, 'error=%d copies=%d, does-not-fit entailed: %s' % (c1, len(copies), S.entails_ge0(total.sub(cap).sub(1)))))

    def on_copy(self, st, rd, doff, rs, soff, length, ins):
        if rd.name == 'WBUF':
            self.log.append(('wbuf-write', ins.loc(), repr(doff), repr(length.a)))
            st.tags['wcopy'] = st.tags.get('wcopy', ()) + ((doff, length.a),)

    def _werr(self, st):
        F = self.lay.writer
        c = (st.cells('W') or {}).get(((F['error_flags'][0], ()), F['error_flags'][1]))
        return c[2] if c is not None else None

    def on_store(self, st, r, off, size, val, ins):
        LibHooks.on_store(self, st, r, off, size, val, ins)
        if r.name == 'WBUF':
            self.log.append(('wbuf-write', ins.loc(), repr(off), str(size)))


def post(C, fname, label, outs, log):
    """observer: `_write` adds exactly data->bsize to the counter on every path; capture counter forms at exit"""
    lay = C.lay
    F = lay.writer
    res = {'wbuf_writes': sorted({x[1] for x in log if x[0] == 'wbuf-write'}), 'counter': [], 'wfit': [tuple(x[1:]) for x in log if x[0] == 'wfit']}
    for (st, ret) in outs:
        c = (st.cells('W') or {}).get(((F['buffer_used'][0], ()), F['buffer_used'][1]))
        res['counter'].append(repr(c[2]) if c else None)
    return res


def taint_clause(rep, mod):
    lay = Layout(mod)
    need(lay.writer, 'C04: no debug info for binson_writer_s')
    names = [n for n, _ in sorted(lay.writer.items(), key=lambda kv: kv[1][0])]
    fidx = {n: i for i, n in enumerate(names)}
    for f in ('buffer_size', 'buffer_used', 'buffer', 'error_flags'):
        need(f in fidx, 'C04: binson_writer_s has no field %s' % f)
    src = {fidx['buffer_size']: 'buffer_size', fidx['buffer']: 'buffer', fidx['error_flags']: 'error_flags'}

    def is_source(fn, ins):
        k = flow.mem_key(fn, ins.ops[0][1])
        return k[0] == 'field' and k[1] == 'struct.binson_writer_s' and k[2] in src

    def is_sink(fn, ins):
        if fn.name in CLEARING:
            return False
        k = flow.mem_key(fn, ins.ops[1][1])
        return k == ('field', 'struct.binson_writer_s', fidx['buffer_used'])
    t = flow.Taint(mod, is_source, skip_fns=CLEARING, result_args={'strlen': [0], 'memcmp': [0, 1, 2], 'snprintf': [2, 3, -1], 'printf': [0, 1, -1]})
    t.run()
    sinks, n = t.check_sinks(is_sink)
    need(n >= 1, 'C04: no store to writer->buffer_used found outside init/reset (taint sink vanished)')
    for ins, reasons in sinks:
        rep.ob(not reasons, '%s:TAINT:buffer_used' % ins.fn.name,
               'C04 counter update at %s in %s depends on capacity / buffer pointer / error state: %s' % (
                   ins.loc(), ins.fn.name, reasons[0] if reasons else ''),
               'rule: no value stored to writer->buffer_used (outside init/reset) may depend, by data or control, on '
               'writer->buffer_size, writer->buffer, writer->error_flags or the result of a failed write.\n' + '\n'.join(reasons),
               sample={'kind': 'TAINT', 'sink': ins.loc(), 'function': ins.fn.name, 'sources': sorted(src.values()), 'flows': 0})
    # the clearing stores exist and store the constant 0 (documented reset points)
    nclear = 0
    for fname in CLEARING:
        fn = mod.functions.get(fname)
        need(fn is not None, 'C04: %s not found' % fname)
        for ins in fn.instructions():
            if ins.op == 'store' and flow.mem_key(fn, ins.ops[1][1]) == ('field', 'struct.binson_writer_s', fidx['buffer_used']):
                nclear += 1
                rep.ob(ins.ops[0][1] == ('int', 0), '%s:counter-clear' % fname,
                       'C04 %s stores a non-zero value to the counter at %s' % (fname, ins.loc()), ins.text)
    return {'taint_sinks': n, 'tainted_values': len(t.tv), 'tainted_memory_keys': sorted(map(str, t.tmem))[:20], 'clearing_stores': nclear}


def run(rep, tier):
    cfgs = [('print.lp64', ('BINSON_PARSER_WITH_PRINT',), None)]
    if tier == 'thorough':
        cfgs += [('print.ilp32', ('BINSON_PARSER_WITH_PRINT',), 'ilp32'), ('noprint.lp64', (), None)]
    with build.Scratch() as sc:
        for (tag, defs, target) in cfgs:
            lib, raws = sc.lib_ir(tag, defs=defs, target=target)
            mod = irload.load(lib)
            todo = [f for f in WRITER_FNS if f in mod.functions and f != 'binson_writer_verify']
            need(len(todo) >= 15, 'C04: only %d writer functions found' % len(todo))
            tasks = []
            for f in todo:
                for lb in runner.labels_for(mod, f):
                    # binson_parser_to_writer: the parser side is C01's business; keep the no-error parser disjuncts
                    tasks.append((f, lb, {'compact': ('_process_one', '_advance_parsing'), 'weight': runner.WEIGHT.get(f, 1)}))
            results = runner.run(mod, tasks, hooks_cls=WHooks, post=post)
            collect(rep, results, tag, kinds=KINDS, prop='C04')
            writes = set()
            nfit = {'stored': 0, 'rejected': 0}
            for r in results:
                writes.update(r['extra']['wbuf_writes'])
                for (kind, okc, loc, why) in r['extra']['wfit']:
                    nfit[kind] += 1
                    if kind == 'stored':
                        rep.ob(okc, '_write:FIT:stored', 'C04 a piece accepted by _write (call at %s, %s[%s]) is not stored as one contiguous copy of its length at the counter, inside the capacity: %s' % (
                            loc, r['fn'], r['label'], why), '', sample={'_write_at': loc, 'accepted_piece': 'one memmove of bsize bytes at buffer[counter], counter + bsize <= capacity'})
                    else:
                        rep.ob(okc, '_write:FIT:rejected', 'C04 _write (call at %s, %s[%s]) raises an error although the piece fits, or stores part of it: %s' % (
                            loc, r['fn'], r['label'], why), '', sample={'_write_at': loc, 'rejected_piece': 'no store and counter + bsize > capacity'})
            need(nfit['stored'] >= 5 and nfit['rejected'] >= 5, 'C04: too few _write outcomes observed (%s)' % nfit)
            rep.coverage.setdefault('write_outcomes', {})[tag] = nfit
            need(len(writes) >= 1, 'C04: no write into the output buffer observed (memmove site vanished)')
            rep.coverage.setdefault('wbuf_write_sites', {})[tag] = sorted(writes)
            rep.coverage.setdefault('entries', []).extend('%s[%s] %s' % (r['fn'], r['label'], tag) for r in results)
            # N1 (outside the statement): binson_writer_verify reads buffer[0..buffer_used) after an overflow
            if tag == cfgs[0][0]:
                # the taint clause runs on the writer unit alone: parser code cannot name the writer's fields (and C01 proves it
                # stores only into the parser object, the state array and out-parameters), calls into it are externals
                wmod = irload.load([r for r in raws if 'binson_writer' in r][0])
                rep.coverage['taint'] = taint_clause(rep, wmod)
                # N1 (outside the statement, which speaks of stores): binson_writer_verify passes the counter - which keeps
                # counting past the capacity - to the parser as the buffer length.  Reported as a NOTE from the IR dataflow.
                fv = mod.functions.get('binson_writer_verify')
                if fv is not None:
                    lay = Layout(mod)
                    names = [n for n, _ in sorted(lay.writer.items(), key=lambda kv: kv[1][0])]
                    for ins in fv.instructions():
                        if flow.callee_name(ins) == 'binson_parser_init_object' and len(ins.ops) >= 3 and ins.ops[2][1][0] == 'local':
                            d = fv.defs.get(ins.ops[2][1][1])
                            if d is not None and d.op == 'load' and flow.mem_key(fv, d.ops[0][1]) == \
                                    ('field', 'struct.binson_writer_s', names.index('buffer_used')):
                                rep.note('N1 (outside C04): binson_writer_verify at %s hands writer->buffer_used, which keeps counting past the '
                                         'capacity, to the parser as the buffer length: an out-of-bounds READ of the writer buffer after an overflow' % ins.loc())
    rep.coverage.update({
        'rule': 'absint: every memmove/store into the writer buffer lies in [0, capacity), from any counter/capacity/error state; '
                'taint: nothing stored to the counter depends on capacity, buffer pointer or error state',
        'trusted_base': ['clang-14 IR', 'engine/absint*.py', 'engine/flow.py taint (field-based, context-insensitive, data+control)'],
        'explanation': 'bounds by abstract interpretation from an unconstrained writer state; capacity independence by taint analysis',
    })
    rep.assumptions += ['writer->buffer points to `capacity` writable bytes after a successful binson_writer_init',
                        'NOT decided: that the counter equals the canonical encoded size (C05), RANGE iff too small, the re-run clause']
