"""C08 - the clause "skipping validates exactly like entering / one check at the end gives verify's verdict", decided
per token: the step relation of the shared token loop (props/stepm.py) is extracted for every scan mode and the modes
are compared on the same loop-head state.

  MODE-ERR    no loop-head state has an iteration that raises an error in one scan mode and silently consumes the same
              token in another (verify, next/skip, enter, leave, lookup all reject the same tokens);
  MODE-STATE  two modes that both consume the token leave the same validation state behind (depth, level flags, array
              depth, recorded name, wiped level): what later checks are made against does not depend on the mode.

That the whole-traversal verdict equals verify's for every strategy is a statement about call histories and is NOT
decided; these two rules are the per-token conditions it needs."""
from engine import build, irload
from engine.common import need, AnalysisBroken
from props import stepm


def base_keys(tc, flags):
    keys = []
    for tname, rng in sorted(tc.items()):
        for f in flags:
            for dz in (True, False):
                keys.append({'tokname': tname, 'tok': rng, 'flags': f, 'dz': dz})
    return keys


def kname(K):
    return 'token %s, level flags 0x%02x, %s%s' % (K['tokname'], K['flags'], 'depth 0' if K['dz'] else 'depth >= 1',
                                                   ', field lookup' if K.get('lookup') else '')


def extract(mod, rep=None, lookups=True, stubcmp=False, cbstub=False):
    """-> (table: {(tokname, flags, dz, lookup): {mode: [outcomes]}}, modes, stats)"""
    lay = stepm.Layout(mod)
    tc = stepm.token_classes()
    flags = stepm.level_flag_constants(mod, lay)
    api_modes = stepm.mode_constants(mod)
    modes = set(api_modes)
    done = set()
    table = {}
    n_eval = 0
    unproven = 0
    rounds = 0
    while True:
        rounds += 1
        need(rounds <= 6, 'C08: the set of scan modes does not close (%r)' % sorted(modes))
        todo = []
        for m in sorted(modes):
            for lk in ((False, True) if lookups else (False,)):
                if (m, lk) in done:
                    continue
                done.add((m, lk))
                for K in base_keys(tc, flags):
                    K = dict(K)
                    K['mode'] = m
                    K['lookup'] = lk
                    K['stubcmp'] = stubcmp
                    K['cbstub'] = cbstub
                    todo.append(K)
        if not todo:
            break
        for r in stepm.run_keys(mod, todo):
            K = r['K']
            n_eval += 1
            unproven += len(r['unproven'])
            table.setdefault((K['tokname'], K['flags'], K['dz'], K['lookup']), {})[K['mode']] = r['outcomes']
            for o in r['outcomes']:
                if o['kind'] == 'cont':
                    need(o['sf'] is not None, 'C08: the scan mode after an iteration is not a constant (%s)' % kname(K))
                    modes.add(o['sf'])
    return table, sorted(modes), {'evaluations': n_eval, 'api_modes': api_modes, 'level_flags': flags,
                                  'token_classes': sorted(tc), 'unproven_memory_obligations_in_steps': unproven}


API_FIRST = [('binson_parser_next', False), ('binson_parser_go_into_object', False), ('binson_parser_go_into_array', False),
             ('binson_parser_leave_object', False), ('binson_parser_leave_array', False), ('binson_parser_get_raw', False),
             ('binson_parser_field_with_length', True)]


def extract_api(mod, table):
    """first iteration of the token loop as each public navigation function reaches it (includes what the function does before
    calling the loop); added to the table as pseudo modes 'api:<function>'"""
    tc = stepm.token_classes()
    items = []
    for (api, lk) in API_FIRST:
        need(api in mod.functions, 'C08: %s not found' % api)
        for (tokname, flags, dz, lookup) in sorted(table, key=repr):
            if lookup != lk:
                continue
            items.append((api, {'tokname': tokname, 'tok': tc[tokname], 'flags': flags, 'dz': dz, 'lookup': lk, 'stubcmp': False}))
    n = reached = 0
    post = {}
    for r in stepm.run_api_keys(mod, items):
        K = r['K']
        n += 1
        for (field, loc, when) in r.get('post_writes', ()):
            if field.startswith('level.') and field.split('.')[1] in ('flags', 'array_depth', 'current_name') or \
                    field in ('parser.depth', 'parser.buffer_used', 'parser.current_state'):
                post.setdefault(r['api'], set()).add((field, loc, when))
        if r['outcomes']:
            reached += 1
            table[(K['tokname'], K['flags'], K['dz'], K['lookup'])]['api:' + r['api'].replace('binson_parser_', '')] = r['outcomes']
    need(reached >= 100, 'C08: the token loop was reached through the public functions in only %d states' % reached)
    return {'api_first_iteration_evaluations': n, 'reaching_the_loop': reached, 'wrapper_post_writes': {a: sorted(v) for a, v in post.items()}}


ORIG = ('k:O', 'k:AO')


def mname(m):
    return m if isinstance(m, str) else 'scan mode 0x%02x' % m


def classify(o):
    if o['err'] is None:
        return '?'
    if o['err'] != 0:
        return 'E'
    if o['cursor'] == 'adv':
        return 'C'
    return 'N'


STATE_FIELDS = ('flags', 'array_depth', 'current_name', '*')


def state_view(o):
    """validation-relevant part of the post-state"""
    eff = {}
    for (k, v) in o['eff']:
        lvl, f = k
        if f is None or f == '*' or any(str(f).startswith(x) for x in STATE_FIELDS):
            eff[k] = v
    return {'ddepth': o['ddepth'], 'level': o['cs_level'], 'cells': eff}


def same_state(v1, v2):
    """validation state equal; a cell value the domain could not express over the loop-head symbols ('?') is not compared"""
    if v1['ddepth'] != v2['ddepth'] or v1['level'] != v2['level']:
        return False
    c1, c2 = v1['cells'], v2['cells']
    if set(c1) != set(c2):
        return False
    for k in c1:
        a, b = c1[k], c2[k]
        if a[0] == '?' or b[0] == '?':
            continue
        if a != b:
            return False
    return True


def run(rep, tier):
    with build.Scratch() as sc:
        cfgs = [('print.lp64', ('BINSON_PARSER_WITH_PRINT',), None)]
        if tier == 'thorough':
            cfgs += [('noprint.lp64', (), None), ('print.ilp32', ('BINSON_PARSER_WITH_PRINT',), 'ilp32')]
        for (tag, defs, target) in cfgs:
            lib, raws = sc.lib_ir(tag, defs=defs, target=target)
            mod = irload.load(lib)
            table, modes, stats = extract(mod)
            stats.update(extract_api(mod, table))
            pw = stats.pop('wrapper_post_writes')
            for (api, lk) in API_FIRST:
                w = pw.get(api)
                rep.ob(not w, '%s:WRAPPER-STATE' % api,
                       'C08 WRAPPER-STATE %s changes the validation state itself, not through the token loop (%s): tokens are passed or later '
                       'tokens are checked in a way verify never does' % (api, ', '.join('%s at %s (%s its loop call)' % x for x in (w or []))), '',
                       sample={'function': api, 'own_writes_to_validation_state': 0})
            rep.coverage.setdefault('extraction', {})[tag] = dict(stats, scan_modes=modes, loop_head_states=len(table))
            need(len(table) >= 100, 'C08: only %d loop-head states evaluated' % len(table))
            counts = {'E': 0, 'C': 0, 'N': 0, '?': 0}
            pairs_err = pairs_state = 0
            for kb, bymode in sorted(table.items(), key=repr):
                K = {'tokname': kb[0], 'flags': kb[1], 'dz': kb[2], 'lookup': kb[3]}
                cls = {m: [(classify(o), o) for o in outs] for m, outs in bymode.items()}
                for m, lst in cls.items():
                    for (c, o) in lst:
                        counts[c] += 1
                        if c == '?':
                            raise AnalysisBroken('C08: error flag after an iteration is not decided (%s, %s)' % (kname(K), mname(m)))
                bad_err = []
                bad_state = []
                bad_orig = []
                for m1, l1 in cls.items():
                    for m2, l2 in cls.items():
                        for (c1, o1) in l1:
                            if c1 == 'E':
                                for (c2, o2) in l2:
                                    if c2 == 'C':
                                        pairs_err += 1
                                        if stepm.cofeasible(o1, o2):
                                            bad_err.append((m1, o1, m2, o2))
                                        elif not isinstance(m1, str) and not isinstance(m2, str) and stepm.cofeasible(o1, o2, ORIG):
                                            bad_orig.append((m1, o1, m2, o2))
                            elif c1 == 'C' and str(m1) < str(m2):
                                for (c2, o2) in l2:
                                    if c2 == 'C':
                                        pairs_state += 1
                                        if not same_state(state_view(o1), state_view(o2)) and stepm.cofeasible(o1, o2):
                                            bad_state.append((m1, o1, m2, o2))
                ob = 'step:MODE-ERR:%s:0x%02x:%s:%s' % (kb[0], kb[1], 'd0' if kb[2] else 'd1', 'lookup' if kb[3] else 'plain')
                if bad_err:
                    m1, o1, m2, o2 = bad_err[0]
                    rep.ob(False, ob, 'C08 MODE-ERR %s (%s): %s raises error %d on this token, %s consumes it without an error '
                           '(a traversal that way accepts what the other rejects)' % (kname(K), tag, mname(m1), o1['err'], mname(m2)),
                           'erroring path:\n  %s\nconsuming path:\n  %s' % ('\n  '.join(o1['path']), '\n  '.join(o2['path'])))
                else:
                    rep.ob(True, ob, '', sample={'loop_head_state': kname(K), 'modes': sorted(map(str, bymode)),
                                                 'outcomes': {mname(m): sorted({classify(o) for o in outs}) for m, outs in bymode.items()}})
                obo = ob.replace('MODE-ERR', 'ORIG-ERR')
                if bad_orig:
                    m1, o1, m2, o2 = bad_orig[0]
                    rep.ob(False, obo, 'C08 ORIG-ERR %s (%s): whether this token raises error %d (%s) or is consumed without an error (%s) depends only on '
                           'the depth / array depth the CALL started at, not on the current state (verify and a step-wise traversal reach the '
                           'same token with different call-entry values)' % (kname(K), tag, o1['err'], mname(m1), mname(m2)),
                           'erroring path:\n  %s\nconsuming path:\n  %s' % ('\n  '.join(o1['path']), '\n  '.join(o2['path'])))
                else:
                    rep.ob(True, obo, '')
                ob = ob.replace('MODE-ERR', 'MODE-STATE')
                if bad_state:
                    m1, o1, m2, o2 = bad_state[0]
                    rep.ob(False, ob, 'C08 MODE-STATE %s (%s): %s and %s both consume this token but leave different validation state '
                           'behind: %r vs %r' % (kname(K), tag, mname(m1), mname(m2), state_view(o1), state_view(o2)),
                           'path A:\n  %s\npath B:\n  %s' % ('\n  '.join(o1['path']), '\n  '.join(o2['path'])))
                else:
                    rep.ob(True, ob, '')
            need(counts['E'] >= 50 and counts['C'] >= 50, 'C08: too few error/consume outcomes classified (%r)' % counts)
            rep.coverage.setdefault('outcomes', {})[tag] = dict(counts, err_vs_consume_pairs=pairs_err, consume_pairs=pairs_state)
    rep.coverage.update({
        'rule': 'ORIG-ERR: an error outcome and a consuming outcome may not become co-feasible merely by giving them different call-entry depth / array '
                'depth snapshots; MODE-ERR: for every loop-head state (token class x level flags x depth class, everything else symbolic) and every pair of scan '
                'modes, no error outcome of one mode is co-feasible with a consuming no-error outcome of the other; MODE-STATE: co-feasible '
                'consuming outcomes of two modes write the same depth / flags / array depth / name / wipe',
        'trusted_base': ['clang-14 IR', 'engine/absint*.py (step mode)', 'props/stepm.py', 'spec/tokens.json (token classes)'],
        'explanation': 'one iteration of the shared token loop is extracted as a relation per scan mode by abstract interpretation; the modes are '
                       'compared on identical loop-head states (same decision signature and jointly satisfiable path conditions)',
        'exhaustive': True,
    })
    rep.assumptions += ['decides the per-token conditions only: equality of the whole-traversal verdict with verify for every call strategy is '
                        'a history property and is NOT decided',
                        'loop-head states are over-approximated (flags/array depth/depth combinations that cannot occur are included)']
