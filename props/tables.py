"""tables: extraction of the decoder and encoder decision tables by abstract evaluation (used by C02, C05, C10)."""
from engine import irload, runner
from engine.contracts import Contracts, LibHooks, Layout
from engine.absval import Int, Ptr, Null, Top, Region, Zero, NULL
from engine.lin import Aff

M64 = (1 << 64) - 1


# ---- interval-set helpers (unsigned 64-bit view) ------------------------------------------------------------
def norm_set(ivs):
    ivs = sorted((a, b) for (a, b) in ivs if a <= b)
    out = []
    for a, b in ivs:
        if out and a <= out[-1][1] + 1:
            out[-1] = (out[-1][0], max(out[-1][1], b))
        else:
            out.append((a, b))
    return out


def inter_set(x, y):
    out = []
    for a, b in x:
        for c, d in y:
            lo, hi = max(a, c), min(b, d)
            if lo <= hi:
                out.append((lo, hi))
    return norm_set(out)


def signed_range_u(lo, hi):
    """signed [lo,hi] as a set of unsigned 64-bit intervals"""
    out = []
    if hi >= 0:
        out.append((max(lo, 0), hi))
    if lo < 0:
        out.append(((lo + (1 << 64)), (min(hi, -1) + (1 << 64))))
    return norm_set(out)


def representable(w):
    return signed_range_u(-(1 << (8 * w - 1)), (1 << (8 * w - 1)) - 1)


def shortest_form(w):
    """values whose shortest two's complement form has exactly w bytes (w in 1,2,4,8)"""
    if w == 1:
        return representable(1)
    prev = {2: 1, 4: 2, 8: 4}[w]
    full = representable(w)
    sm = representable(prev)
    # full minus sm
    out = []
    for a, b in full:
        cur = a
        for c, d in sm:
            if d < cur or c > b:
                continue
            if c > cur:
                out.append((cur, c - 1))
            cur = max(cur, d + 1)
        if cur <= b:
            out.append((cur, b))
    return norm_set(out)


# ---- decoder ---------------------------------------------------------------------------------------------------
def decoder_parse_integer(C, mod):
    """for bsize in {1,2,4,8}: the set of *value accepted by _parse_integer(check_boundaries = true)"""
    fn = mod.functions.get('_parse_integer')
    res = {}
    lay = C.lay
    for w in (1, 2, 4, 8):
        st = C.I.new_state()
        bs = st.fresh('cfg:buffer_size', lay.szw, 8, lay.objmax)
        st.add_region(Region('BUF', 'buf', Aff.sym(bs), readonly=True, content='bytes'))
        st.add_region(Region('LD', 'obj', Aff(2 * lay.ptr)))
        st.add_region(Region('OUTV', 'obj', Aff(8)))
        st.mem['LD'] = {}
        st.mem['OUTV'] = {}
        st.owned |= {'LD', 'OUTV'}
        C.setcell(st, 'LD', lay.bbuf['bsize'][0], lay.ptr, Int(lay.szw, Aff(w)))
        C.setcell(st, 'LD', lay.bbuf['bptr'][0], lay.ptr, Ptr('BUF', Aff(0)))
        st.frames = [C._root_frame()]
        outs = C.split_bool_returns(C.I.call_function(st, fn, [Ptr('LD', Aff(0)), Ptr('OUTV', Aff(0)), Int(1, Aff(1))], None))
        acc = []
        rej = []
        for (s, rv) in outs:
            rc = s.store.const_of(rv.a) if isinstance(rv, Int) else None
            c = (s.cells('OUTV') or {}).get(((0, ()), 8))
            if c is None or not isinstance(c[2], Int):
                iv = (0, M64)
            else:
                iv = s.store.bounds(c[2].a)
            (acc if rc == 1 else rej).append(iv)
        res[w] = {'accepted': norm_set(acc), 'rejected': norm_set(rej), 'paths': len(outs)}
    return res


def decoder_process_one(C, mod):
    """for every first byte 0..255: set of (next_state, consumed-bytes class, error) of _process_one"""
    fn = mod.functions.get('_process_one')
    lay = C.lay
    table = {}
    F = lay.parser
    for b in range(256):
        st = C.I.new_state()
        md = st.fresh('cfg:max_depth', 8, 1, 255)
        bs = st.fresh('cfg:buffer_size', lay.szw, 2, lay.objmax)
        C.parser_regions(st, Aff.sym(bs), Aff.sym(md))
        used = st.fresh('tab:used', lay.szw, 0, lay.objmax)
        st.store.assume_ge0(Aff.sym(bs).sub(Aff.sym(used)).sub(1))
        for name, (off, size) in F.items():
            if name == 'buffer':
                v = Ptr('BUF', Aff(0))
            elif name == 'buffer_size':
                v = Int(lay.szw, Aff.sym(bs))
            elif name == 'buffer_used':
                v = Int(lay.szw, Aff.sym(used))
            elif name == 'error_flags':
                v = Int(32, Aff(0))
            elif name == 'state':
                v = Ptr('STATE', Aff(0))
            elif name == 'current_state':
                v = Ptr('STATE', Aff(0))
            elif name in ('cb',):
                v = NULL
            elif name == 'cb_context':
                v = NULL
            else:
                v = st.fresh_int('tab:%s' % name, size * 8)
            C.setcell(st, 'P', off, size, v)
        st.tags['J'] = False
        st.add_region(Region('CONS', 'obj', Aff(2 * lay.ptr)))
        st.add_region(Region('BC', 'obj', Aff(lay.ptr)))
        st.mem['CONS'] = {}
        st.mem['BC'] = {}
        st.owned |= {'CONS', 'BC'}
        C.setcell(st, 'CONS', lay.bbuf['bsize'][0], lay.ptr, Int(lay.szw, Aff(1)))
        C.setcell(st, 'CONS', lay.bbuf['bptr'][0], lay.ptr, Ptr('BUF', Aff.sym(used)))
        C.setcell(st, 'BC', 0, lay.ptr, Int(lay.szw, Aff(0)))
        # the byte under the cursor is the constant b
        bsym = st.fresh('byte:BUF', 8, b, b)
        st.bufmemo[('BUF', Aff.sym(used).key())] = bsym
        st.frames = [C._root_frame()]
        outs = C.I.call_function(st, fn, [Ptr('P', Aff(0)), Ptr('CONS', Aff(0)), Ptr('BC', Aff(0))], None)
        rows = set()
        for (s, rv) in outs:
            S = s.store
            ns = S.const_of(rv.a) if isinstance(rv, Int) else None
            ec = (s.cells('P') or {}).get(((F['error_flags'][0], ()), F['error_flags'][1]))
            err = S.const_of(ec[2].a) if ec and isinstance(ec[2], Int) else None
            bc = (s.cells('BC') or {}).get(((0, ()), lay.ptr))
            uc = (s.cells('P') or {}).get(((F['buffer_used'][0], ()), F['buffer_used'][1]))
            cons = None
            lenrange = None
            if bc is not None and isinstance(bc[2], Int):
                k = S.const_of(bc[2].a)
                if k is not None:
                    cons = ('const', k)
                else:
                    # 1 + w + L : constant part and the length symbol's range
                    cons = ('var', bc[2].a.c)
                    rest = bc[2].a.sub(bc[2].a.c)
                    lenrange = S.bounds(rest)
            adv = None
            if uc is not None and isinstance(uc[2], Int):
                d = uc[2].a.sub(Aff.sym(used))
                if bc is not None and isinstance(bc[2], Int) and S.entails_eq0(d.sub(bc[2].a)):
                    adv = 'cursor+=consumed'
                else:
                    adv = 'cursor+=%r' % (d,)
            rows.add((ns, cons, lenrange, err, adv))
        table[b] = rows
    return table


# ---- encoder -----------------------------------------------------------------------------------------------------
class EncHooks(LibHooks):
    def on_loop_entry(self, fn, head, states):
        """the packing loop of _int_pack_size is entered once per decided (width, type byte, value piece)"""
        if fn.name != '_int_pack_size':
            return
        for st in states:
            S = st.store
            env = st.top.env
            val = env.get(fn.params[0][1])
            buf = env.get(fn.params[1][1])
            size = None
            for ins in fn.blocks[head].instrs:
                pass
            # the width is the loop bound: the i8 phi/constant compared with the counter in the head block
            width = None
            for ins in fn.blocks[head].instrs:
                if ins.op == 'icmp':
                    for (t, v) in ins.ops:
                        if v[0] == 'local':
                            d = fn.defs.get(v[1])
                            cur = v[1]
                            for _ in range(3):
                                d = fn.defs.get(cur)
                                if d is not None and d.op in ('zext', 'sext') and d.ops[0][1][0] == 'local':
                                    cur = d.ops[0][1][1]
                                else:
                                    break
                            vv = env.get(cur)
                            if isinstance(vv, Int) and S.const_of(vv.a) is not None and cur not in [i.res for i in fn.blocks[head].instrs if i.op == 'phi']:
                                width = S.const_of(vv.a)
            first = None
            if isinstance(buf, Ptr):
                c = (st.cells(buf.region) or {}).get((buf.off.key(), 1))
                if c is not None and isinstance(c[2], Int):
                    first = S.const_of(c[2].a)
            iv = S.bounds(val.a) if isinstance(val, Int) else None
            self.log.append(('packrow', first, width, iv))

    def on_call(self, st, name, args, ins):
        if name == '_write' and len(args) == 2 and isinstance(args[1], Ptr):
            lay = self.lay
            reg = args[1].region
            S = st.store
            bsz = (st.cells(reg) or {}).get((args[1].off.add(lay.bbuf['bsize'][0]).key(), lay.ptr))
            bpt = (st.cells(reg) or {}).get((args[1].off.add(lay.bbuf['bptr'][0]).key(), lay.ptr))
            size = S.const_of(bsz[2].a) if bsz and isinstance(bsz[2], Int) else None
            first = None
            src = None
            payload = None
            if bpt and isinstance(bpt[2], Ptr):
                src = bpt[2].region
                if src.startswith('L'):
                    c = (st.cells(src) or {}).get((bpt[2].off.key(), 1))
                    if c is not None and isinstance(c[2], Int):
                        first = S.const_of(c[2].a)
                    src = 'local'
                if size is None and bsz and isinstance(bsz[2], Int):
                    payload = repr(bsz[2].a)
            ev = st.tags.get('writes', ())
            st.tags['writes'] = ev + ((first, size, src, payload),)


def encoder_table(mod, runner_mod=None):
    """-> dict fn -> list of rows {value/length interval set, writes[(first byte, size, source, payload form)], error}"""
    from engine.contracts import Contracts
    out = {}
    fns = {'binson_write_integer': 'arg:value', 'binson_write_string_with_len': 'arg:length', 'binson_write_bytes': 'arg:length',
           'binson_write_double': None, 'binson_write_boolean': 'arg:bool', 'binson_write_object_begin': None,
           'binson_write_object_end': None, 'binson_write_array_begin': None, 'binson_write_array_end': None}
    for f, argorigin in fns.items():
        hooks = EncHooks()
        C = Contracts(mod, hooks)
        C.I.ctx.limits['partition_small_consts'] = True
        res = C.run(f, only=lambda l: l == 'wok')
        rows = []
        for (label, outs) in res:
            for (st, rv) in outs:
                S = st.store
                iv = None
                if argorigin:
                    for s_, info in st.syminfo.items():
                        if info.origin == argorigin and s_ in S.ivl:
                            iv = S.ivl[s_]
                F = C.lay.writer
                ec = (st.cells('W') or {}).get(((F['error_flags'][0], ()), F['error_flags'][1]))
                err = S.const_of(ec[2].a) if ec and isinstance(ec[2], Int) else None
                rows.append({'arg': iv, 'writes': st.tags.get('writes', ()), 'error': err,
                             'ret': S.const_of(rv.a) if isinstance(rv, Int) else None})
        out[f] = rows
        out[f + ':pack'] = sorted({x[1:] for x in hooks.log if x[0] == 'packrow'}, key=repr)
    return out


# ---- byte order / sign extension (byte-slot domain, loops unrolled) ------------------------------------------------------
def decoder_assembly(C, mod):
    """for (width, check_boundaries): per accepting path, which input byte ends up in which byte of the decoded word.
    -> dict (w, check) -> list of dict(slots=[...], ok=bool, why=str)"""
    fn = mod.functions.get('_parse_integer')
    lay = C.lay
    C.I.ctx.limits['slots'] = True
    C.I.ctx.limits['unroll'] = set(C.I.ctx.limits.get('unroll', ())) | {'_parse_integer'}
    res = {}
    for (w, chk) in ((1, 1), (2, 1), (4, 1), (8, 1), (8, 0)):
        st = C.I.new_state()
        bs = st.fresh('cfg:buffer_size', lay.szw, 8, lay.objmax)
        st.add_region(Region('BUF', 'buf', Aff.sym(bs), readonly=True, content='bytes'))
        st.add_region(Region('LD', 'obj', Aff(2 * lay.ptr)))
        st.add_region(Region('OUTV', 'obj', Aff(8)))
        st.mem['LD'] = {}
        st.mem['OUTV'] = {}
        st.owned |= {'LD', 'OUTV'}
        C.setcell(st, 'LD', lay.bbuf['bsize'][0], lay.ptr, Int(lay.szw, Aff(w)))
        C.setcell(st, 'LD', lay.bbuf['bptr'][0], lay.ptr, Ptr('BUF', Aff(0)))
        insyms = []
        for k in range(w):
            sym = st.fresh('byte:in[%d]' % k, 8)
            st.bufmemo[('BUF', Aff(k).key())] = sym
            insyms.append(sym)
        st.frames = [C._root_frame()]
        outs = C.split_bool_returns(C.I.call_function(st, fn, [Ptr('LD', Aff(0)), Ptr('OUTV', Aff(0)), Int(1, Aff(chk))], None))
        rows = []
        for (s, rv) in outs:
            if s.store.const_of(rv.a) != 1:
                continue
            c = (s.cells('OUTV') or {}).get(((0, ()), 8))
            sl = C.I.ops.slots(s, c[2]) if c is not None else None
            ok = sl is not None and len(sl) == 8
            why = ''
            if ok:
                for k in range(w):
                    if sl[k] != ('b', insyms[k]):
                        ok = False
                        why = 'byte %d of the decoded word is %r, expected input byte %d' % (k, sl[k], k)
                zeros, ones = s.kb.get(insyms[w - 1], (0, 0))
                for k in range(w, 8):
                    if sl[k] == ('c', 0xff) and (ones & 0x80):
                        continue
                    if sl[k] == ('c', 0x00) and (zeros & 0x80):
                        continue
                    ok = False
                    why = why or 'byte %d of the decoded word is %r, expected the sign fill of input byte %d (sign bit known: zeros=%#x ones=%#x)' % (k, sl[k], w - 1, zeros, ones)
            else:
                why = 'decoded word has no byte-slot description (%r)' % (sl,)
            rows.append({'slots': [repr(x) for x in (sl or ())], 'ok': ok, 'why': why})
        res[(w, chk)] = rows
    C.I.ctx.limits['slots'] = False
    return res


class EncByteHooks(EncHooks):
    def on_call(self, st, name, args, ins):
        EncHooks.on_call(self, st, name, args, ins)
        if name == '_write' and len(args) == 2 and isinstance(args[1], Ptr):
            lay = self.lay
            reg = args[1].region
            S = st.store
            bsz = (st.cells(reg) or {}).get((args[1].off.add(lay.bbuf['bsize'][0]).key(), lay.ptr))
            bpt = (st.cells(reg) or {}).get((args[1].off.add(lay.bbuf['bptr'][0]).key(), lay.ptr))
            size = S.const_of(bsz[2].a) if bsz and isinstance(bsz[2], Int) else None
            if size is None or not bpt or not isinstance(bpt[2], Ptr) or not bpt[2].region.startswith('L'):
                return
            src = bpt[2]
            by = []
            for k in range(1, size):
                c = (st.cells(src.region) or {}).get((src.off.add(k).key(), 1))
                sl = self.interp.ops.slots(st, c[2]) if c is not None else None
                d = sl[0] if sl else None
                if d is not None and d[0] == 'v':
                    info = st.syminfo.get(d[1])
                    d = ('v', info.origin if info else d[1], d[2])
                by.append(d)
            self.log.append(('packbytes', size - 1, tuple(by)))


def encoder_bytes(mod):
    """-> dict fn -> sorted list of (width, (descr of payload byte 0..w-1))"""
    from engine.contracts import Contracts
    out = {}
    for f in ('binson_write_integer', 'binson_write_string_with_len', 'binson_write_bytes', 'binson_write_double'):
        hooks = EncByteHooks()
        C = Contracts(mod, hooks)
        C.I.ctx.limits['partition_small_consts'] = True
        C.I.ctx.limits['slots'] = True
        C.I.ctx.limits['unroll'] = {'_int_pack_size'}
        C.run(f, only=lambda l: l == 'wok')
        out[f] = sorted({x[1:] for x in hooks.log if x[0] == 'packbytes'}, key=repr)
    return out


# ---- what the decoder's internal "next state" codes mean, read from the code itself ---------------------------------------
def next_state_kinds(mod, dec):
    """-> ({next_state code: kind}, error code).  The codes _process_one returns are an internal encoding; their meaning is taken
    from what the token loop does with them: the public binson_type it records as the current type for such a token."""
    from props import stepm
    from engine.contracts import Contracts, LibHooks, Layout
    from engine.common import need
    lay = Layout(mod)
    enums = Contracts(mod, LibHooks())._enums()
    tname = {v: n[len('BINSON_TYPE_'):].lower() for n, v in enums.items() if n.startswith('BINSON_TYPE_')}
    flags = stepm.level_flag_constants(mod, lay)
    modes = stepm.mode_constants(mod)
    kinds = {}
    errs = set()
    for b, rows in sorted(dec.items()):
        for r in rows:
            if r[3] != 0:
                errs.add(r[0])
        succ = {r[0] for r in rows if r[3] == 0}
        for v in succ:
            if v in kinds:
                continue
            types = set()
            for f in flags:
                res, _ = stepm.eval_step(mod, {'tok': (b, b), 'flags': f, 'dz': False, 'mode': modes[0], 'lookup': False})
                for o in res:
                    if o['err'] != 0:
                        continue
                    for ((lvl, field), desc) in o['eff']:
                        if field == 'current_type' and desc[0] == 'c' and not any(str(f2).startswith('current_name') for ((l2, f2), d2) in o['eff']):
                            types.add(desc[1])
            need(len(types) == 1, 'tables: the token loop does not record one type for tokens starting with byte 0x%02x (%r)' % (b, sorted(types)))
            kinds[v] = tname.get(types.pop(), '?')
    need(len(errs) == 1, 'tables: _process_one does not use one error code (%r)' % sorted(errs))
    need(len(set(kinds.values())) == len(kinds) and '?' not in kinds.values(), 'tables: next-state codes do not map one-to-one to value types (%r)' % kinds)
    return kinds, errs.pop()
