"""C16 - every call terminates, work linear in the bytes moved over.
For every natural loop of the C library a ranking obligation is discharged on every back-edge
disjunct of the abstract interpretation; the call graph is acyclic (checked here too)."""
from engine import build, irload, runner
from engine.contracts import API, LibHooks, Layout
from engine.absval import Int, Ptr
from engine.lin import Aff
from engine.common import need
from props.c17 import sccs

# entries from which every loop of the library is reached in every calling context that matters
import os
ENTRIES = os.environ['C16_ENTRIES'].split(',') if os.environ.get('C16_ENTRIES') else ['binson_parser_verify', 'binson_parser_next', 'binson_parser_go_into_object', 'binson_parser_go_into_array',
           'binson_parser_leave_object', 'binson_parser_leave_array', 'binson_parser_field_with_length', 'binson_parser_get_raw',
           'binson_parser_print', 'binson_parser_to_string', 'binson_write_integer', 'binson_write_string_with_len',
           'binson_write_double']
MIN_LOOPS = 6


def place_values(st, snap):
    """current values of the places recorded at the loop head"""
    cur = {}
    for key in snap:
        if key[0] == 'env':
            cur[key] = st.top.env.get(key[1])
        else:
            c = (st.mem.get(key[0]) or {}).get(key[1])
            cur[key] = c[2] if c is not None else None
    return cur


def measures(st, snap, cur, loopkey=None):
    """status of every candidate measure on this back-edge disjunct: measure -> 'strict' | 'equal'
    measures: ('dec', place) unsigned value decreases; ('inc', place, bound place) value increases below a loop-invariant
    bound; ('bitclear', cell, bit) a flag bit known set at the head is clear at the back edge"""
    S = st.store
    out = {}
    inv = []
    for k, hv in snap.items():
        cv = cur.get(k)
        if isinstance(hv, Int) and isinstance(cv, Int) and hv.a == cv.a:
            inv.append((k, hv))
    for k, hv in snap.items():
        cv = cur.get(k)
        if not isinstance(hv, Int) or not isinstance(cv, Int):
            continue
        if hv.a == cv.a or S.entails_eq0(cv.a.sub(hv.a)):
            out[('dec', repr(k))] = 'equal'
            for (bk, bv) in inv:
                if bv.w == cv.w and bk != k:
                    out[('inc', repr(k), repr(bk))] = 'equal'
            continue
        d = cv.a.sub(hv.a)
        if os.environ.get('C16_DBG') and k[0] == 'P' and k[1][0][0] == 16:
            print('   [c16] used head=%r back=%r d=%r ge1=%s bounds=%r missing=%r' % (hv, cv, d, S.entails_ge0(d.sub(1)), None, [z for z in d.t if z not in S.ivl]))
        if not all(z in S.ivl for z in d.t):
            continue
        if S.entails_ge0(d.neg().sub(1)):
            out[('dec', repr(k))] = 'strict'
        elif S.entails_ge0(d.neg()):
            out[('dec', repr(k))] = 'equal'
        if S.entails_ge0(d.sub(1)):
            for (bk, bv) in inv:
                if bv.w == cv.w and S.entails_ge0(bv.a.sub(cv.a)):
                    out[('inc', repr(k), repr(bk))] = 'strict'
    for (k, ones) in st.tags.get(('fw',) + tuple(loopkey or ()), ()):
        c = (st.cells('STATE') or {}).get(k)
        if c is None or not isinstance(c[2], Int) or not ones:
            continue
        if not all(z in S.ivl for z in c[2].a.t):
            continue
        newc = S.const_of(c[2].a)
        if newc is None:
            ng = c[2].a.single()
            nz = st.kb.get(ng[0], (0, 0))[0] if ng and ng[1] == 1 and c[2].a.c == 0 else 0
            newc = 0xffff & ~nz      # bits possibly set
        for bit in [1 << i_ for i_ in range(16)]:
            if (ones & bit) and not (newc & bit):
                out[('bitclear', 'state-flags', bit)] = 'strict'
    return out


def post(C, fname, label, outs, log):
    res = []
    for x in log:
        if x[0] != 'loop':
            continue
        _, fn, head, info = x
        per = []
        for b in info['backs']:
            snap = None
            for tk, tv in b.tags.items():
                if isinstance(tk, tuple) and tk[0] == 'loophead' and tk[1] == fn and tk[2] == head:
                    snap = tv
            if snap is None:
                per.append({'m': {}, 'path': ['no head snapshot']})
                continue
            cur = place_values(b, snap)
            m = measures(b, snap, cur, (fn, head))
            per.append({'m': {repr(k): v for k, v in m.items()},
                        'path': ['%s:%d:%s' % p if p[1] else p[2] for p in b.pathlist()][-10:]})
        res.append({'fn': fn, 'head': head, 'line': C.mod.functions[fn].blocks[head].instrs[0].line, 'rounds': info['rounds'],
                    'backs': len(info['backs']), 'per': per})
    return res


def lexicographic(per):
    """greedy search for a lexicographic ranking: -> (ordered measures, remaining disjuncts)"""
    remaining = list(range(len(per)))
    order = []
    allm = set()
    for p in per:
        allm.update(p['m'])
    while remaining:
        best = None
        for m in sorted(allm):
            if m in order:
                continue
            strict = [i for i in remaining if per[i]['m'].get(m) == 'strict']
            if not strict:
                continue
            last = m.startswith("('bitclear'")
            if not last and any(per[i]['m'].get(m) not in ('strict', 'equal') for i in remaining):
                continue
            if last and len(strict) != len(remaining):
                continue
            if best is None or len(strict) > len(best[1]):
                best = (m, strict)
        if best is None:
            break
        order.append(best[0])
        remaining = [i for i in remaining if i not in best[1]]
    return order, remaining


def run(rep, tier):
    cfgs = [('print.lp64', ('BINSON_PARSER_WITH_PRINT',), None)]
    if tier == 'thorough':
        cfgs += [('print.ilp32', ('BINSON_PARSER_WITH_PRINT',), 'ilp32')]
    with build.Scratch() as sc:
        for (tag, defs, target) in cfgs:
            lib, raws = sc.lib_ir(tag, defs=defs, target=target)
            mod = irload.load(lib)
            # enumerate the loops of the library from the IR
            loops = {}
            for fn in mod.functions.values():
                for lp in fn.loops():
                    loops[(fn.name, lp['head'])] = fn.blocks[lp['head']].instrs[0].loc()
            need(len(loops) >= MIN_LOOPS, 'C16: only %d natural loops found in the library (expected >= %d)' % (len(loops), MIN_LOOPS))
            # acyclic call graph (no recursion): termination of calls reduces to termination of loops
            edges, indirect, addr_taken = mod.callgraph()
            edges = {k: set(v) for k, v in edges.items()}
            for ins in indirect:
                edges.setdefault(ins.fn.name, set()).update(addr_taken)
            cyc = [c for c in sccs(set(mod.functions), edges) if len(c) > 1 or c[0] in edges.get(c[0], ())]
            rep.ob(not cyc, 'callgraph:recursion', 'C16 recursion through %s' % (cyc[0] if cyc else ''), '',
                   sample={'callgraph': 'acyclic', 'functions': len(mod.functions)})
            tasks = []
            for f in ENTRIES:
                need(f in mod.functions, 'C16: anchor function %s not found' % f)
                for lb in runner.labels_for(mod, f):
                    if lb.startswith('err') or lb.endswith('werr') or lb.endswith('nulltext'):
                        continue
                    # the lookup loop needs the per-path outcome of each _advance_parsing call (toggle vs. consume): no exit compaction there
                    comp = ('_process_one',) if f == 'binson_parser_field_with_length' else ('_process_one', '_advance_parsing')
                    tasks.append((f, lb, {'compact': comp, 'weight': runner.WEIGHT.get(f, 1)}))
            results = runner.run(mod, tasks, hooks_cls=LibHooks, post=post, tolerate=True)
            good = []
            for r in results:
                if r['ok']:
                    good.append(r)
                elif 'did not stabilise' in r.get('error', ''):
                    # no invariant, hence no ranking, could be established for a loop in this context: termination is not shown
                    rep.ob(False, '%s:RANK:unstable' % r['fn'],
                           'C16 %s [%s] (%s): %s - no ranking argument can be given for that loop in this calling context' % (
                               r['fn'], r['label'], tag, r['error'].split('AnalysisBroken: ')[-1]),
                           'the abstract interpretation of the loop did not reach a fixpoint within the widening budget; on the unchanged tree it does')
                else:
                    from engine.common import AnalysisBroken
                    raise AnalysisBroken('analysis of %s [%s] failed: %s' % (r['fn'], r['label'], r['error']))
            results = good
            seen = {}
            for r in results:
                for L in r['extra']:
                    key = (L['fn'], L['head'])
                    seen.setdefault(key, []).append((r, L))
            for key, loc in sorted(loops.items()):
                if key not in seen and os.environ.get('C16_ENTRIES'):
                    continue
                need(key in seen, 'C16: loop at %s (%s) was not reached by any analysed entry' % (loc, key[0]))
                for (r, L) in seen[key]:
                    ctx = '%s[%s] %s' % (r['fn'], r['label'], tag)
                    if L['backs'] == 0:
                        rep.ob(True, '%s:RANK' % key[0], '', sample={'loop': loc, 'context': ctx, 'back_edges': 0})
                        continue
                    order, remaining = lexicographic(L['per'])
                    if not remaining:
                        rep.ob(True, '%s:RANK' % key[0], '', sample={'loop': loc, 'context': ctx, 'back_edge_disjuncts': L['backs'],
                                                                    'lexicographic_ranking': order, 'widening_rounds': L['rounds']})
                    else:
                        for i in remaining[:3]:
                            p = L['per'][i]
                            rep.ob(False, '%s:RANK' % key[0],
                                   'C16 loop at %s in %s: %d of %d back-edge disjuncts have no ranking argument (context %s; measures found so far: %s)' % (
                                       loc, key[0], len(remaining), L['backs'], ctx, order),
                                   'rule: a lexicographic ranking must exist - on every path back to the loop head some measure strictly decreases '
                                   '(unsigned value decreases / cursor advances below the buffer size / a set flag bit is cleared) while the earlier ones do not increase.\n'
                                   'measures of this disjunct: %s\npath of the offending disjunct:\n  %s' % (
                                       {k: v for k, v in p['m'].items() if v == 'strict'}, '\n  '.join(p['path'])))
            rep.coverage.setdefault('loops', {})[tag] = {'%s@%s' % (k[0], v): len(seen.get(k, ())) for k, v in loops.items()}
            # "a failed lookup re-reads at most the one name it overshot": the rewind is exactly the current iteration's bytes
            if not os.environ.get('C16_ENTRIES'):
                from props.c07 import rewind_clause
                rep.coverage.setdefault('rewind_events', {})[tag] = rewind_clause(rep, mod, tag, 'C16')
            rep.coverage.setdefault('entries', []).extend('%s[%s] %s' % (r['fn'], r['label'], tag) for r in results)
    rep.coverage.update({
        'rule': 'for each natural loop and each calling context: every back-edge disjunct has a common ranking place (strict decrease of an '
                'unsigned value, or strict increase under a loop-invariant bound); call graph acyclic',
        'trusted_base': ['clang-14 IR', 'engine/absint*.py', 'engine/irload.py natural-loop detection'],
        'explanation': 'ranking obligations discharged on the abstract back-edge states; tokens per call <= bytes advanced + 1 follows from the '
                       'cursor being the ranking place of the token loop',
    })
    rep.assumptions += ['CPU time is not decided; libc calls terminate']
