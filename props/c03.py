"""C03 - two clauses: (1) typed getters return their neutral result for every other current type and write nothing;
(2) every span stored for a name / string / bytes value is exactly the sub-span the token occupies (starts right after
the descriptor and its 1/2/4 length bytes, ends exactly at the cursor).  Decoded values are NOT decided."""
from engine import build, irload, runner
from engine.contracts import API, LibHooks, Layout
from engine.absval import Int, Ptr, Null, Top
from engine.lin import Aff
from engine.common import need

GETTERS = {'binson_parser_get_integer': ('BINSON_TYPE_INTEGER', 'zero'), 'binson_parser_get_boolean': ('BINSON_TYPE_BOOLEAN', 'zero'),
           'binson_parser_get_double': ('BINSON_TYPE_DOUBLE', 'fzero'), 'binson_parser_get_string_bbuf': ('BINSON_TYPE_STRING', 'null'),
           'binson_parser_get_bytes_bbuf': ('BINSON_TYPE_BYTES', 'null'), 'binson_parser_string_equals': ('BINSON_TYPE_STRING', 'zero')}


class GHooks(LibHooks):
    def on_store(self, st, r, off, size, val, ins):
        LibHooks.on_store(self, st, r, off, size, val, ins)
        if not r.name.startswith('L'):
            self.log.append(('anystore', r.name, ins.loc()))
        if r.name == 'STATE' and isinstance(val, Ptr) and val.region == 'BUF':
            # a span pointer is being recorded: remember it with the cursor at the head of this iteration and now
            o, sz = self.lay.parser['buffer_used']
            cur = (st.cells('P') or {}).get(((o, ()), sz))
            head = None
            for tk, snap in st.tags.items():
                if isinstance(tk, tuple) and tk and tk[0] == 'loophead' and tk[1] == '_advance_parsing':
                    head = snap.get(('P', ((o, ()), sz)))
            ef = self.elem_field(off)
            st.tags['spanptr'] = (ins.loc(), val, cur[2] if cur else None, head, ef[1] if ef else None)
        elif r.name == 'STATE' and isinstance(val, Int) and st.tags.get('spanptr') is not None and size == self.lay.ptr:
            loc, pv, cur, head, fo = st.tags.pop('spanptr')
            ef = self.elem_field(off)
            if ef is None or fo is None or ef[1] != fo - self.lay.bbuf['bptr'][0] + self.lay.bbuf['bsize'][0]:
                return
            S = st.store
            delta = None
            if isinstance(head, Int) and all(z in S.ivl for z in head.a.t):
                delta = S.const_of(pv.off.sub(head.a))
            ends = isinstance(cur, Int) and S.entails_eq0(pv.off.add(val.a).sub(cur.a))
            self.log.append(('span', loc, delta, ends, repr(pv), repr(val), repr(cur), repr(head)))


def make_preset(tconst):
    def pre(C, st, label):
        if label.startswith('ok'):
            C.preset_state_cell(st, label, 'current_type', Int(32, Aff(tconst)))
    return pre


def post_equals(C, fname, label, outs, log):
    """string_equals on a STRING value: a true answer must come from a full-length bytewise comparison"""
    lay = C.lay
    res = []
    for (st, ret) in outs:
        S = st.store
        rc = S.const_of(ret.a) if isinstance(ret, Int) else None
        if rc != 1:
            res.append({'ret': rc})
            continue
        e = {'ret': 1, 'full': False, 'why': 'no memcmp on this path', 'path': ['%s:%d:%s' % p if p[1] else p[2] for p in st.pathlist()][-8:]}
        ureg = st.regions.get('USTR')
        slen = ureg.length.sub(1) if ureg is not None else None
        cs = C.current_level_offset(st, label, 'current_value')
        bs = (st.cells('STATE') or {}).get((cs.add(lay.bbuf['bsize'][0]).key(), lay.ptr)) if cs is not None else None
        for ev in st.eventlist():
            if ev[0] != 'memcmp':
                continue
            _, a, b, n, r = ev
            ok_n = isinstance(n, Int) and slen is not None and bs is not None and isinstance(bs[2], Int) and \
                S.entails_eq0(n.a.sub(slen)) and S.entails_eq0(n.a.sub(bs[2].a))
            ok_r = isinstance(r, Int) and all(z in S.ivl for z in r.a.t) and S.entails_eq0(r.a)
            ptrs = {getattr(a, 'region', None), getattr(b, 'region', None)} == {'BUF', 'USTR'}
            e['full'] = bool(ok_n and ok_r and ptrs)
            e['why'] = 'memcmp(n=%r) result %r; strlen=%r value length=%r; n==both lengths: %s, result==0: %s' % (
                n, r, slen, bs[2] if bs else None, ok_n, ok_r)
        res.append(e)
    return res


def post(C, fname, label, outs, log):
    res = {'exits': [], 'stores': sorted({(x[1], x[2]) for x in log if x[0] == 'anystore'}), 'spans': [x[1:] for x in log if x[0] == 'span']}
    for (st, ret) in outs:
        S = st.store
        if isinstance(ret, Int):
            r = ('int', S.const_of(ret.a))
        elif isinstance(ret, Null):
            r = ('null',)
        elif isinstance(ret, Top) and ret.kind in ('float', 'double'):
            try:
                r = ('float', float(ret.why))
            except ValueError:
                r = ('float', None)
        else:
            r = ('other', repr(ret))
        res['exits'].append(r)
    return res


def neutral(kind, ret):
    return (kind == 'zero' and ret == ('int', 0)) or (kind == 'null' and ret == ('null',)) or (kind == 'fzero' and ret[0] == 'float' and ret[1] == 0.0)


def run(rep, tier):
    with build.Scratch() as sc:
        lib, raws = sc.lib_ir('c03')
        mod = irload.load(lib)
        from engine.contracts import Contracts
        enums = Contracts(mod, LibHooks()).enums
        types = {n: v for n, v in enums.items() if n.startswith('BINSON_TYPE_')}
        need(len(types) >= 10, 'C03: binson_type enumerators not found in debug info (%d)' % len(types))
        # ---- clause 1: neutral getters
        tasks = []
        for f, (own, kind) in GETTERS.items():
            need(f in mod.functions, 'C03: getter %s not found' % f)
            need(own in types, 'C03: enumerator %s not found' % own)
            for tname, tv in sorted(types.items(), key=lambda kv: kv[1]):
                if tname == own:
                    continue
                for lb in ('ok-d0', 'ok-d1'):
                    tasks.append((f, lb, {'setup': (lambda C, tv=tv: setattr(C, 'presets', [make_preset(tv)])), 'tname': tname}))
        results = runner.run(mod, tasks, hooks_cls=GHooks, post=post)
        for (t, r) in zip(tasks, results):
            f = r['fn']
            own, kind = GETTERS[f]
            tn = t[2]['tname']
            for e in r['extra']['exits']:
                rep.ob(neutral(kind, e), '%s:NEUTRAL:%s' % (f, tn),
                       'C03 %s returns %r while the current value has type %s (its own type is %s)' % (f, e, tn, own), 'entry %s' % r['label'],
                       sample={'getter': f, 'current_type': tn, 'returns': list(e)})
            rep.ob(not r['extra']['stores'], '%s:NEUTRAL-WRITE:%s' % (f, tn),
                   'C03 %s writes memory (%s) while the current value has type %s' % (f, r['extra']['stores'][:3], tn), '')
        # ---- clause 1b: string_equals answers true only after a full-length bytewise comparison of equal-length strings
        tstr = types['BINSON_TYPE_STRING']
        eq = runner.run(mod, [('binson_parser_string_equals', lb, {'setup': (lambda C, tv=tstr: setattr(C, 'presets', [make_preset(tv)]))})
                              for lb in ('ok-d0', 'ok-d1')], hooks_cls=GHooks, post=post_equals)
        ntrue = 0
        for r in eq:
            for e in r['extra']:
                if e['ret'] == 1:
                    ntrue += 1
                    rep.ob(e['full'], 'binson_parser_string_equals:EQUALS-FULL',
                           'C03 binson_parser_string_equals can answer true without a full-length bytewise comparison of two equal-length strings (%s)' % e['why'],
                           'path:\n  ' + '\n  '.join(e['path']), sample={'fn': 'binson_parser_string_equals', 'true_only_after': e['why']})
                elif e['ret'] is None:
                    rep.ob(False, 'binson_parser_string_equals:EQUALS-RET', 'C03 binson_parser_string_equals: undecided return value', '')
        need(ntrue >= 1, 'C03: no true-returning path of binson_parser_string_equals on a STRING value')
        # ---- clause 3: value assembly - the decoded word is the sign-extended little-endian reading of the w payload bytes
        from engine.contracts import Contracts as _C
        from props import tables as T
        asm = T.decoder_assembly(_C(mod, LibHooks()), mod)
        for (w, chk), rows in sorted(asm.items()):
            need(rows, 'C03: no accepting path of _parse_integer for width %d' % w)
            for row in rows:
                rep.ob(row['ok'], '_parse_integer:ASSEMBLY:%d:%d' % (w, chk),
                       'C03 a %d-byte %s is not decoded as the sign-extended little-endian value of its bytes: %s' % (
                           w, 'integer/length' if chk else 'double bit pattern', row['why']),
                       'byte slots of the decoded 64-bit word (least significant first): %s' % row['slots'],
                       sample={'width': w, 'kind': 'integer' if chk else 'double', 'decoded_word_bytes': row['slots']})
        rep.coverage['value_stores_verified_end_to_end'] = value_e2e(rep, mod)
        # ---- clause 2: exact sub-span (uncompacted token decoding, one calling context is enough: the stores are context independent)
        sres = runner.run(mod, [('binson_parser_next', lb, {'compact': (), 'weight': 5}) for lb in ('ok-d0', 'ok-d1')], hooks_cls=GHooks, post=post)
        nspan = 0
        for r in sres:
            for (loc, delta, ends, pv, sv, cur, head) in r['extra']['spans']:
                nspan += 1
                rep.ob(delta in (2, 3, 5), '_advance_parsing:SPAN-START',
                       'C03 span recorded at %s starts %r bytes after the token start, not right after the descriptor and its 1/2/4 length bytes (%s)' % (loc, delta, pv),
                       'pointer %s, length %s, cursor %s, cursor at token start %s' % (pv, sv, cur, head),
                       sample={'store': loc, 'span_start_minus_token_start': delta, 'ends_at_cursor': ends})
                rep.ob(ends, '_advance_parsing:SPAN-END',
                       'C03 span recorded at %s does not end exactly at the cursor after the token (%s + %s vs %s)' % (loc, pv, sv, cur), '')
        need(nspan >= 6, 'C03: only %d span stores observed' % nspan)
        rep.coverage['span_stores'] = nspan
    rep.coverage.update({
        'rule': '6 getters x 9 foreign current types x 2 depth disjuncts: neutral constant returned, nothing written; every (pointer,length) '
                'stored for a name/string/bytes token starts 1+w bytes after the token start (w in 1,2,4) and ends at the cursor',
        'trusted_base': ['clang-14 IR', 'engine/absint*.py'],
        'explanation': 'abstract interpretation per current_type constant; span exactness from the affine offset forms at the store sites',
    })
    rep.assumptions += ['the byte-slot domain covers the assembly loop (unrolled for the constant widths 1/2/4/8); that the w bytes handed to it are the token\'s payload is the span clause; boolean decoding is a single comparison and is not separately checked']


# ------------------------------------------------------------------------------------------------------------------
# clause 5: value assembly end to end - what one iteration of the token loop stores as the current value of an
# integer / double token is the sign-extended little-endian reading of THAT token's payload bytes

def value_e2e(rep, mod):
    from props import stepm
    from engine.contracts import Contracts
    from engine.absval import Int as _Int
    from engine.lin import Aff as _Aff
    lay = Layout(mod)
    # the scan mode binson_parser_next passes
    nxt = mod.functions.get('binson_parser_next')
    need(nxt is not None, 'C03: binson_parser_next not found')
    modes = set()
    for ins in nxt.instructions():
        if ins.op == 'call' and ins.attrs['callee'] == ('global', stepm.STEP_FN):
            a = ins.ops[1][1]
            if isinstance(a, tuple) and a[0] == 'int':
                modes.add(a[1] & 0xff)
    need(len(modes) == 1, 'C03: binson_parser_next does not pass one constant scan mode to %s' % stepm.STEP_FN)
    mode = modes.pop()
    flags_alpha = stepm.level_flag_constants(mod, lay)
    import json
    spec = json.load(open(stepm.SPEC))
    n_ok = 0
    for key, row in sorted(spec['tokens'].items()):
        if row['kind'] not in ('integer', 'double'):
            continue
        b = int(key, 16)
        w = row['width']
        found = 0
        for flags in flags_alpha:
            hooks = stepm.StepHooks()
            C = Contracts(mod, hooks)
            C.I.ctx.limits['step'] = (stepm.STEP_FN,)
            C.I.ctx.limits['sig'] = True
            C.I.ctx.limits['cap'] = 4096
            C.I.ctx.limits['slots'] = True
            C.I.ctx.limits['unroll'] = {'_parse_integer'}
            fn = mod.functions[stepm.STEP_FN]
            phi = stepm.scan_flags_phi(fn, C.I.info(fn))
            K = {'tok': (b, b), 'flags': flags, 'dz': False, 'mode': mode}
            st, args, sym = stepm.build_entry(C, hooks, K)
            insyms = []
            for k in range(w):
                s_ = st.fresh('byte:payload[%d]' % k, 8)
                st.bufmemo[('BUF', _Aff.sym(sym['k:u']).add(1 + k).key())] = s_
                insyms.append(s_)
            st.frames = [C._root_frame()]
            outs = C.I.call_function(st, fn, args, None)
            cand = [s for (s, rv) in outs if 'step_base' in s.tags] + list(hooks.backs)
            for s in cand:
                F = lay.parser
                e = (s.cells('P') or {}).get(((F['error_flags'][0], ()), 4))
                if e is None or not isinstance(e[2], _Int) or s.store.const_of(e[2].a) != 0:
                    continue
                base = s.tags['step_base']
                o = base.add(lay.state['current_value'][0])
                c = (s.cells('STATE') or {}).get((o.key(), 8))
                dirty = s.tags.get('step_dirty') or frozenset()
                if c is None or (o.key(), 8) not in dirty:
                    continue            # this iteration did not store a 64-bit current value (value not accepted in this level state)
                found += 1
                sl = C.I.ops.slots(s, c[2]) if isinstance(c[2], _Int) else None
                ok = sl is not None and len(sl) == 8
                why = ''
                if ok:
                    for k in range(w):
                        if sl[k] != ('b', insyms[k]):
                            ok = False
                            why = why or 'byte %d of the stored value is %r, expected payload byte %d of the token' % (k, sl[k], k)
                    zeros, ones = s.kb.get(insyms[w - 1], (0, 0))
                    for k in range(w, 8):
                        if sl[k] == ('c', 0xff) and (ones & 0x80):
                            continue
                        if sl[k] == ('c', 0x00) and (zeros & 0x80):
                            continue
                        ok = False
                        why = why or 'byte %d of the stored value is %r, expected the sign fill of payload byte %d (sign bit known: zeros=%#x ones=%#x)' % (k, sl[k], w - 1, zeros, ones)
                else:
                    why = 'the stored value has no byte-slot description (%r)' % (c[2],)
                n_ok += 1 if ok else 0
                rep.ob(ok, '_advance_parsing:VALUE-E2E:%s:%d' % (key, flags),
                       'C03 VALUE-E2E the value the token loop records for a %d-byte %s token (type byte %s, level flags 0x%02x) is not the sign-extended '
                       'little-endian reading of its payload: %s' % (w, row['kind'], key, flags, why),
                       'byte slots of the stored 64-bit value (least significant first): %s' % [repr(x) for x in (sl or ())],
                       sample={'type_byte': key, 'width': w, 'stored_value_bytes': [repr(x) for x in (sl or ())]})
        need(found >= 1, 'C03: no iteration of the token loop stores a value for type byte %s' % key)
    need(n_ok >= 5, 'C03: only %d value stores verified end to end' % n_ok)
    return n_ok
